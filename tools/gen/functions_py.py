"""Translator of WHOLE FUNCTIONS: whitelisted small pure functions of rnapolis -> Generated/Functions.lean
(namespace RnaVerif.Gen.Fn) through tools/py2lean.py, plus Generated/PyUnicode.lean (the Unicode tables of the
running interpreter used by the string primitives of Model/Py.lean).

Per whitelist entry: the function is located in the *current* source by qualified name, translated, and emitted
with its Python text and the sha256 of its normalised AST.  When py2lean refuses the function (anything outside
the subset, a type mismatch, a lost name) the anchor `py2lean:<lean name>` is reported as lost and the block
pinned in tools/py2lean_pins.json (the translation of the verified tree) is emitted instead; the function is then
carried by the differential run of harness/corr/fn_common.py alone.

    tools/gen/functions_py.py --pin      rewrite tools/py2lean_pins.json from the current tree
    tools/gen/functions_py.py --show N   print the block of whitelist entry N
"""
import ast
import importlib
import json
import os
import sys

HERE = os.path.dirname(os.path.abspath(__file__))
sys.path.insert(0, os.path.dirname(HERE))
import genlib  # noqa: E402
import py2lean as P  # noqa: E402
from py2lean import BOOL, FLOAT, INT, STR, Dict, Enum, Fn, FnSpec, ListT, Opt, Struct, Tup  # noqa: E402

PINS = os.path.join(genlib.VERIF, "tools", "py2lean_pins.json")


# ---------------------------------------------------------------------------------------------------
# fragments of larger functions

def frag_return_expr(free):
    """the last statement of the function must be `return <expr>`: translate that expression as a function of the
    names in `free` (all of which must be assigned / bound earlier in the function)"""
    def f(fn):
        last = fn.body[-1]
        if not isinstance(last, ast.Return) or last.value is None:
            raise P.Refuse("the function does not end in `return <expr>`")
        bound = {a.arg for a in fn.args.args} | {t.id for s in fn.body for n in ast.walk(s) if isinstance(n, ast.Assign)
                                                for t in n.targets if isinstance(t, ast.Name)}
        for v in free:
            if v not in bound:
                raise P.Refuse("variable %s is not bound in the function" % v)
        return list(free), [last]
    return f


def frag_var_rule(target, free):
    """the unique top-level `if` statement of the function that assigns `target` in every branch, followed by
    `return target`: the rule computing `target` from the names in `free`"""
    def f(fn):
        hits = []
        for s in fn.body:
            if isinstance(s, ast.If):
                tg = {t.id for n in ast.walk(s) if isinstance(n, ast.Assign) for t in n.targets if isinstance(t, ast.Name)}
                if tg == {target}:
                    hits.append(s)
        if len(hits) != 1:
            raise P.Refuse("no unique `if` statement defining %s" % target)
        return list(free), [hits[0], ast.Return(value=ast.Name(id=target, ctx=ast.Load()))]
    return f


# ---------------------------------------------------------------------------------------------------
# the whitelist

def whitelist():
    """-> (enum declarations, struct declarations, ordered function specs).  Callees before callers."""
    enums = [
        # (lean/python class name, module, {property: whitelist entry})
        ("LeontisWesthof", "common", {"reverse": "lwReverse"}),
        ("Saenger", "common", {"is_canonical": "saengerIsCanonical"}),
        ("StackingTopology", "common", {"reverse": "stackingReverse"}),
        ("GlycosidicBond", "common", {}),
        ("Molecule", "common", {}),
        ("AtomType", "clashfinder", {"radius": "atomRadius"}),
    ]
    structs = [
        # (name, module, class, base, fields, props, methods, abstract)
        ("ResidueLabel", "common", "ResidueLabel", None, [("chain", STR), ("number", INT), ("name", STR)], {}, {}, ()),
        ("ResidueAuth", "common", "ResidueAuth", None, [("chain", STR), ("number", INT), ("icode", Opt(STR)), ("name", STR)], {}, {}, ()),
        ("Residue", "common", "Residue", None, [("label", Opt(Struct("ResidueLabel"))), ("auth", Opt(Struct("ResidueAuth")))],
         {"chain": "residueChain", "number": "residueNumber", "icode": "residueIcode", "name": "residueName",
          "molecule_type": "moleculeType"}, {}, ()),
        ("Atom", "tertiary", "Atom", None, [("name", STR), ("x", FLOAT), ("y", FLOAT), ("z", FLOAT)], {}, {}, ()),
        ("Residue3D", "tertiary", "Residue3D", "Residue",
         [("model", INT), ("one_letter_name", STR), ("atoms", ListT(Struct("Atom"))), ("chi", FLOAT)],
         {"chi_class": "chiClass"}, {"find_atom": "findAtom"}, ("chi",)),
        ("BasePair3D", "tertiary", "BasePair3D", None,
         [("nt1", Struct("Residue")), ("nt2", Struct("Residue")), ("lw", Enum("LeontisWesthof")), ("saenger", Opt(Enum("Saenger"))),
          ("nt1_3d", Struct("Residue3D")), ("nt2_3d", Struct("Residue3D"))],
         {"score": "bpScore", "is_canonical": "bpIsCanonical"}, {}, ()),
    ]
    LW, SA, ST = Enum("LeontisWesthof"), Enum("Saenger"), Enum("StackingTopology")
    RES, RES3, ATOM, BP3 = Struct("Residue"), Struct("Residue3D"), Struct("Atom"), Struct("BasePair3D")
    tors = {"torsion_angle": ("torsionAngle", Fn([ATOM, ATOM, ATOM, ATOM], FLOAT)), "math.degrees": ("degrees", Fn([FLOAT], FLOAT))}
    radii = {n: (FLOAT, (lambda n: lambda m: getattr(m, n))(n)) for n in ("CARBON_RADIUS", "NITROGEN_RADIUS", "OXYGEN_RADIUS", "PHOSPHORUS_RADIUS")}
    fns = [
        # ---- common.py
        FnSpec("lwReverse", "common", "LeontisWesthof.reverse", [LW], LW, raises=True, serves=["C11"],
               doc="f-string of three indexed characters of the member name, looked up by name"),
        FnSpec("lwLt", "common", "LeontisWesthof.__lt__", [LW, LW], BOOL, serves=["C11"]),
        FnSpec("saengerIsCanonical", "common", "Saenger.is_canonical", [SA], BOOL, serves=["C06"]),
        FnSpec("stackingReverse", "common", "StackingTopology.reverse", [ST], ST, serves=["C04"]),
        FnSpec("residueChain", "common", "Residue.chain", [RES], Opt(STR), serves=["C11"]),
        FnSpec("residueNumber", "common", "Residue.number", [RES], Opt(INT), serves=["C11"]),
        FnSpec("residueIcode", "common", "Residue.icode", [RES], Opt(STR), serves=["C11"]),
        FnSpec("residueName", "common", "Residue.name", [RES], Opt(STR), serves=["C11"]),
        FnSpec("residueLt", "common", "Residue.__lt__", [RES, RES], BOOL, raises=True, serves=["C11"],
               doc="tuple comparison; `None < x` is a TypeError (residue without auth and label)"),
        FnSpec("moleculeType", "common", "Residue.molecule_type", [RES], Enum("Molecule"), serves=["C11"]),
        # ---- tertiary.py
        FnSpec("residue3dLt", "tertiary", "Residue3D.__lt__", [RES3, RES3], BOOL, raises=True, serves=["C03"]),
        FnSpec("chiClass", "tertiary", "Residue3D.chi_class", [RES3], Opt(Enum("GlycosidicBond")), serves=["C18"],
               oracles={"math.radians": ("radians", Fn([FLOAT], FLOAT))},
               doc="`self.chi` (a cached property computed from coordinates) is taken as data"),
        FnSpec("findAtom", "tertiary", "Residue3D.find_atom", [RES3, STR], Opt(ATOM), serves=["C03", "C11"]),
        FnSpec("bpScore", "tertiary", "BasePair3D.score", [BP3], INT, serves=["C06"],
               consts={"self.score_table": (Dict(LW, INT), lambda m: m.BasePair3D.score_table)}),
        FnSpec("bpIsCanonical", "tertiary", "BasePair3D.is_canonical", [BP3], BOOL, serves=["C06"]),
        FnSpec("pairScoreBpseq", "tertiary", "Mapping2D3D.bpseq.pair_scoring_function", [BP3], Tup(INT, RES, RES), serves=["C06"]),
        FnSpec("pairScoreData", "tertiary", "Mapping2D3D._generated_bpseq_data.pair_scoring_function", [BP3], Tup(INT, RES, RES),
               serves=["C06"]),
        # ---- annotator.py
        FnSpec("cisTrans", "annotator", "detect_cis_trans", [RES3, RES3], Opt(STR), oracles=tors, serves=["C03"]),
        FnSpec("bphClass", "annotator", "detect_bph_br_classification", [RES3, ATOM, ATOM], Opt(INT), oracles=tors, serves=["C11"]),
        FnSpec("angleClamp", "annotator", "angle_between_vectors", [FLOAT], FLOAT, serves=["C03", "C04"],
               oracles={"math.acos": ("acos", Fn([FLOAT], FLOAT))}, fragment=frag_return_expr(["cosine"]),
               doc="fragment: the returned expression as a function of the local `cosine` (the float arithmetic producing it is not translated)"),
        FnSpec("detectSaenger", "annotator", "detect_saenger", [RES3, RES3, LW], Opt(SA), raises=True, serves=["C11"],
               consts={"Saenger.table()": (Dict(Tup(STR, STR), STR), lambda m: m.Saenger.table())}),
        # ---- adapter.py
        FnSpec("matchDssrLw", "adapter", "match_dssr_lw", [Opt(STR)], Opt(LW), raises=True, serves=["C19"]),
        # ---- clashfinder.py
        FnSpec("atomRadius", "clashfinder", "AtomType.radius", [Enum("AtomType")], FLOAT, raises=True, consts=radii, serves=["C17"]),
        FnSpec("atomMatches", "clashfinder", "AtomType.matches", [Enum("AtomType"), ATOM], BOOL, serves=["C17"]),
        FnSpec("classifyClash", "clashfinder", "classify_clash", [ATOM, ATOM, FLOAT], Opt(STR), serves=["C17"]),
        # ---- parser_v2.py
        FnSpec("pdbAtomName", "parser_v2", "_format_pdb_atom_line", [STR], STR, serves=["C09"],
               fragment=frag_var_rule("atom_name_fmt", ["atom_name"]),
               doc="fragment: the rule that places the atom name in columns 13-16 (`atom_name_fmt` from `atom_name`)"),
    ]
    return enums, structs, fns


# candidates that were examined and are outside the subset (kept here so that the refusal is exercised on every run)
REFUSED_CANDIDATES = [
    FnSpec("tryParseInt", "parser", "try_parse_int", [STR], Opt(INT)),
    FnSpec("getOneLetterName", "parser", "get_one_letter_name", [Opt(STR), Opt(Struct("ResidueLabel")), STR, STR], STR, raises=True),
    FnSpec("unifyClassification", "adapter", "unify_classification", [STR], Tup(STR, STR)),
    FnSpec("residue3dChi", "tertiary", "Residue3D.chi", [Struct("Residue3D")], FLOAT),
    FnSpec("stacking3dReverse", "tertiary", "Stacking3D.reverse", [Struct("Residue3D")], Struct("Residue3D")),
    FnSpec("mergeAndClean", "annotator", "merge_and_clean_bph_br", [ListT(INT)], ListT(INT)),
    FnSpec("residueFullName", "common", "Residue.full_name", [Struct("Residue")], Opt(STR)),
]


# ---------------------------------------------------------------------------------------------------

def unicode_tables():
    import unicodedata
    key = "-- interpreter: Python %s, Unicode %s" % (sys.version.split()[0], unicodedata.unidata_version)
    path = os.path.join(genlib.VERIF, "lean", "RnaVerif", "Generated", "PyUnicode.lean")
    try:        # the tables depend on the interpreter only: reuse the file written for the same interpreter
        old = open(path).read()
        if old.split("\n")[1] == key and old.rstrip().endswith("end RnaVerif.Gen.PyU"):
            return old
    except Exception:  # noqa: BLE001
        pass

    def ranges(pred):
        out, start = [], None
        for c in range(0x110000):
            if 0xD800 <= c <= 0xDFFF:
                ok = False
            else:
                ok = pred(chr(c))
            if ok and start is None:
                start = c
            if not ok and start is not None:
                out.append((start, c - 1))
                start = None
        if start is not None:
            out.append((start, 0x10FFFF))
        return out

    def cmap(f):
        out = []
        for c in range(128, 0x110000):
            if 0xD800 <= c <= 0xDFFF:
                continue
            if f(chr(c)) != chr(c):
                out.append((c, f(chr(c))))
        return out
    # the ASCII fast paths of Model/Py.lean are checked against the interpreter here
    for c in range(128):
        ch = chr(c)
        assert ch.isalpha() == (65 <= c <= 90 or 97 <= c <= 122) and ch.isdigit() == (48 <= c <= 57)
        assert ch.upper() == (chr(c - 32) if 97 <= c <= 122 else ch) and ch.lower() == (chr(c + 32) if 65 <= c <= 90 else ch)
    o = [genlib.HEADER.rstrip("\n"), key, "/-! Unicode tables of the running interpreter (`str.isalpha`, `str.isdigit`, `str.isspace`, one-character\n"
         "`str.upper` / `str.lower` outside ASCII), used by Model/Py.lean -/\nnamespace RnaVerif.Gen.PyU\n"]
    def table(name, lty, items):
        # long list literals exceed the elaborator's recursion depth: chunks of 256
        chunks = [items[i:i + 256] for i in range(0, len(items), 256)] or [[]]
        for i, ch in enumerate(chunks):
            o.append("def %s_%d : List %s :=\n  %s\n" % (name, i, lty, genlib.lean_list(ch, 8)))
        o.append("def %s : List %s := %s\n" % (name, lty, " ++ ".join("%s_%d" % (name, i) for i in range(len(chunks)))))
    for name, pred in (("alphaRanges", str.isalpha), ("digitRanges", str.isdigit), ("spaceRanges", str.isspace)):
        table(name, "(Nat × Nat)", ["(%d, %d)" % x for x in ranges(pred)])
    for name, f in (("upperTable", str.upper), ("lowerTable", str.lower)):
        table(name, "(Nat × List Nat)", ["(%d, [%s])" % (c, ", ".join(str(ord(x)) for x in s)) for c, s in cmap(f)])
    o.append("end RnaVerif.Gen.PyU\n")
    return "\n".join(o)


def comment_safe(s):
    return s.replace("-/", "- /").replace("/-", "/ -")


def build(ctx=None, pins=None):
    """-> (blocks: [(key, text)], report: {lean name: {...}})"""
    enums, structs, fns = whitelist()
    w = P.World()
    for s in fns:
        w.specs[s.lean] = s
    mods, trees = {}, {}

    def mod(name):
        if name not in mods:
            mods[name] = importlib.import_module("rnapolis." + name)
            trees[name] = genlib.module_ast(name)[0]
        return mods[name]
    blocks, report = [], {}
    pins = pins if pins is not None else load_pins()

    def pinned(key, why):
        if ctx is not None:
            ctx.lost("py2lean:%s" % key)
        report[key] = {"status": "pinned", "reason": why}
        if key not in pins and os.environ.get("PY2LEAN_DEBUG"):
            return "-- REFUSED %s: %s" % (key, why)
        if key not in pins:
            raise RuntimeError("py2lean refused %s (%s) and no pinned block exists" % (key, why))
        return "-- PINNED: py2lean refused the present source (%s)\n%s" % (comment_safe(why.replace("\n", " "))[:200], pins[key])

    bad_types = set()
    for name, m, props in enums:
        key = "enum:" + name
        try:
            info = P.EnumInfo(name, getattr(mod(m), name), props)
            info.verify(w)
            w.enums[name] = info
            blocks.append((key, info.lean()))
            report[key] = {"status": "ok"}
        except Exception as e:  # noqa: BLE001
            bad_types.add(name)
            blocks.append((key, pinned(key, "%s: %s" % (type(e).__name__, e))))
    for name, m, cls, base, fields, props, methods, abstract in structs:
        key = "struct:" + name
        try:
            info = P.StructInfo(name, getattr(mod(m), cls), fields, base, props, methods, abstract)
            for _, t in fields:
                for b in bad_types:
                    if b in repr(t):
                        raise P.Refuse("depends on %s" % b)
            if base in bad_types:
                raise P.Refuse("depends on %s" % base)
            w.structs[name] = info
            info.verify(w)
            blocks.append((key, info.lean(w)))
            report[key] = {"status": "ok"}
        except Exception as e:  # noqa: BLE001
            bad_types.add(name)
            w.structs.pop(name, None)
            blocks.append((key, pinned(key, "%s: %s" % (type(e).__name__, e))))
    for s in fns:
        hdr = "/-- `%s.%s` — translated by tools/py2lean.py; serves %s%s" % (s.module, s.qual, ", ".join(s.serves), ("; " + s.doc) if s.doc else "")
        try:
            for b in bad_types:
                if b in repr(s.params) or b in repr(s.ret):
                    raise P.Refuse("depends on %s" % b)
            r = P.translate(w, s, mod(s.module), trees[s.module])
            text = "%s\nAST sha256/16: %s\n```python\n%s\n```\n-/\n%s" % (hdr, r["sha"], comment_safe(r["source"]), r["lean"])
            # the doc comment must sit directly on the main definition: constants first
            if r["lean"].count("\ndef ") >= 1 and r["lean"].lstrip().startswith("/--"):
                idx = r["lean"].rindex("def %s " % s.lean)
                text = r["lean"][:idx] + "%s\nAST sha256/16: %s\n```python\n%s\n```\n-/\n%s" % (hdr, r["sha"], comment_safe(r["source"]), r["lean"][idx:])
            blocks.append((s.lean, text))
            report[s.lean] = {"status": "ok", "sha": r["sha"], "module": s.module, "qual": s.qual, "serves": list(s.serves)}
            w.done[s.lean] = s
        except P.Refuse as e:
            blocks.append((s.lean, pinned(s.lean, str(e))))
            w.done[s.lean] = s      # callers are translated against the pinned signature
        except RuntimeError:
            raise
        except Exception as e:  # noqa: BLE001  (a crash of the translator is a refusal too, never wrong Lean)
            blocks.append((s.lean, pinned(s.lean, "translator error %s: %s" % (type(e).__name__, e))))
            w.done[s.lean] = s
    refused = {}
    for s in REFUSED_CANDIDATES:
        try:
            w.specs[s.lean] = s
            P.translate(w, s, mod(s.module), trees[s.module])
            refused[s.lean] = "UNEXPECTEDLY ACCEPTED"
        except P.Refuse as e:
            refused[s.lean] = str(e)
        except Exception as e:  # noqa: BLE001
            refused[s.lean] = "translator error %s: %s" % (type(e).__name__, e)
        finally:
            w.specs.pop(s.lean, None)
    report["_refused_candidates"] = refused
    return blocks, report


def load_pins():
    try:
        return json.load(open(PINS))
    except Exception:  # noqa: BLE001
        return {}


def render(blocks):
    o = [genlib.HEADER.rstrip("\n"), "import RnaVerif.Model.Py",
         "/-! Whole functions of rnapolis translated from the current source by tools/py2lean.py (whitelist in\n"
         "tools/gen/functions_py.py).  `-- BEGIN <key>` … `-- END <key>` delimit one whitelist entry; a block headed\n"
         "`PINNED` is the translation of the verified tree, emitted because the present source of that function is\n"
         "outside the subset (anchor `py2lean:<key>` lost). -/",
         "set_option linter.unusedVariables false", "namespace RnaVerif.Gen.Fn", "open RnaVerif", ""]
    for key, text in blocks:
        o.append("-- BEGIN %s\n%s\n-- END %s\n" % (key, text.rstrip("\n"), key))
    o.append("end RnaVerif.Gen.Fn\n")
    return "\n".join(o)


def compile_errors(text):
    """compile a candidate Functions.lean in a scratch file -> keys of the blocks that contain an error (None: could not run lean)"""
    import re
    import subprocess
    import tempfile
    lean_dir = os.path.join(genlib.VERIF, "lean")
    d = os.path.join(lean_dir, ".audit")
    os.makedirs(d, exist_ok=True)
    fd, path = tempfile.mkstemp(suffix=".lean", prefix="FunctionsCandidate", dir=d)
    try:
        with os.fdopen(fd, "w") as f:
            f.write(text)
        try:
            p = subprocess.run(["lake", "env", "lean", path], cwd=lean_dir, capture_output=True, text=True, timeout=600)
        except Exception:  # noqa: BLE001
            return None
        if p.returncode == 0:
            return []
        lines = text.split("\n")
        bad = set()
        for m in re.finditer(r":(\d+):\d+: error", p.stdout + p.stderr):
            ln = int(m.group(1))
            for i in range(min(ln, len(lines)) - 1, -1, -1):
                if lines[i].startswith("-- BEGIN "):
                    bad.add(lines[i][len("-- BEGIN "):].strip())
                    break
        return sorted(bad) or None
    finally:
        try:
            os.unlink(path)
        except OSError:
            pass


def emit(ctx):
    blocks, report = build(ctx)
    text = render(blocks)
    target = os.path.join(genlib.VERIF, "lean", "RnaVerif", "Generated", "Functions.lean")
    try:
        unchanged = open(target).read() == text
    except OSError:
        unchanged = False
    if not unchanged:
        # the definitions changed: they are compiled in a scratch file before they replace the committed ones; a block that
        # does not compile (a translator fault, never a verdict) is replaced by its pinned translation and reported as lost
        pins = load_pins()
        for _ in range(3):
            bad = compile_errors(text)
            if not bad:
                break
            changed_any = False
            for i, (key, t) in enumerate(blocks):
                if key in bad and key in pins and t != pins[key]:
                    blocks[i] = (key, "-- PINNED: the regenerated block did not compile (translator fault)\n" + pins[key])
                    ctx.lost("py2lean:%s" % key)
                    report[key] = {"status": "pinned", "reason": "generated Lean did not compile"}
                    changed_any = True
            if not changed_any:
                break
            text = render(blocks)
    ctx.notes.append({"py2lean": report})
    return {"PyUnicode.lean": unicode_tables(), "Functions.lean": text}


if __name__ == "__main__":
    if "--pin" in sys.argv:
        blocks, report = build(None, pins={})
        json.dump({k: t for k, t in blocks}, open(PINS, "w"), indent=1, sort_keys=True)
        print("pinned %d blocks" % len(blocks))
    else:
        c = genlib.Ctx()
        blocks, report = build(c, pins=load_pins() if "--nopins" not in sys.argv else {})
        if "--show" in sys.argv:
            want = sys.argv[sys.argv.index("--show") + 1]
            print(dict(blocks)[want])
        else:
            print(json.dumps(report, indent=1))

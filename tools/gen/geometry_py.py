"""Translator for the geometric decision layer -> Generated/Geometry.lean

annotator.py / tertiary.py : the three stacking thresholds, the base-atom lists used for the
centroid, the atoms (origin, first, second) spanning the base normal for purines / other letters,
the substring test that selects the purine branch.
clashfinder.py            : radius per atom type, MolProbity addend, KD-tree query factor, default
occupancy and how a zero occupancy is treated, which dictionary the per-chain maximum reads.

Live module objects first, `ast` for literals inside function bodies, pinned fall-backs last.
The rational enclosures of cos^2 of the two angle thresholds (width <= 2e-18) are *computed here
from the extracted angles* with exact `Fraction` arithmetic (alternating Taylor bounds of cos and a
40-digit enclosure of pi); Props/C04.lean re-proves in Lean that they enclose cos^2 35deg and
cos^2 45deg.
"""
import ast
import math
import re
from fractions import Fraction

from genlib import HEADER, find_function, lean_list, lean_rat, lean_str, module_ast

# 3.14159265358979323846264338327950288419716939937510...
PI_LO = Fraction(31415926535897932384626433832795028841971, 10 ** 40)
PI_HI = Fraction(31415926535897932384626433832795028841972, 10 ** 40)
SCALE = 10 ** 18


def _cos_bounds(x):
    """(lo, hi) with lo <= cos x <= hi for a rational x (any x: truncated alternating sums)."""
    term = Fraction(1)
    s = Fraction(0)
    sums = []
    for n in range(0, 40):
        s += term
        sums.append(s)
        term = -term * x * x / ((2 * n + 1) * (2 * n + 2))
    # even number of terms -> lower bound, odd number -> upper bound
    return sums[39], sums[38]


def cos_sq_enclosure(deg):
    """rational (lo, hi), lo <= cos^2(deg degrees) <= hi, hi - lo <= 2e-18; 0 <= deg <= 90"""
    d = Fraction(repr(float(deg)))
    assert 0 <= d <= 90
    xlo, xhi = d * PI_LO / 180, d * PI_HI / 180
    clo = max(Fraction(0), _cos_bounds(xhi)[0])  # cos decreasing on [0, pi]
    chi = min(Fraction(1), _cos_bounds(xlo)[1])
    lo, hi = clo * clo, chi * chi
    lo = Fraction(math.floor(lo * SCALE), SCALE)
    hi = Fraction(-math.floor(-hi * SCALE), SCALE)
    assert lo <= hi and hi - lo <= Fraction(2, SCALE) + Fraction(1, 10 ** 30)
    return lo, hi


def frac_rat(fr):
    n, d = fr.numerator, fr.denominator
    if d == 1:
        return "(%d : Rat)" % n
    return "(%d / %d : Rat)" % (n, d)


def _normal_branch(stmts):
    """(origin, first, second) atom names of `v1 = a - o; v2 = b - o` in a statement list."""
    names = {}
    subs = []
    for st in stmts:
        for node in ast.walk(st):
            if isinstance(node, ast.Assign) and len(node.targets) == 1 and isinstance(node.targets[0], ast.Name):
                v = node.value
                if (isinstance(v, ast.Call) and isinstance(v.func, ast.Attribute) and v.func.attr == "find_atom"
                        and len(v.args) == 1 and isinstance(v.args[0], ast.Constant) and isinstance(v.args[0].value, str)):
                    names[node.targets[0].id] = v.args[0].value
                if isinstance(v, ast.BinOp) and isinstance(v.op, ast.Sub):
                    def base(e):
                        if isinstance(e, ast.Attribute) and isinstance(e.value, ast.Name):
                            return e.value.id
                        return None
                    a, o = base(v.left), base(v.right)
                    if a and o:
                        subs.append((node.lineno, node.targets[0].id, a, o))
    subs.sort()
    if len(subs) != 2 or subs[0][3] != subs[1][3]:
        return None, None
    try:
        trip = (names[subs[0][3]], names[subs[0][2]], names[subs[1][2]])
    except KeyError:
        return None, None
    return trip, (subs[0][1], subs[1][1])


def _normal_atoms(ctx, tree):
    fn = find_function(tree, "Residue3D.base_normal_vector")
    pur = pyr = letters = None
    if fn is not None:
        for node in ast.walk(fn):
            if isinstance(node, ast.If) and isinstance(node.test, ast.Compare) and len(node.test.ops) == 1 \
                    and isinstance(node.test.ops[0], ast.In) and isinstance(node.test.comparators[0], ast.Constant) \
                    and isinstance(node.test.comparators[0].value, str):
                letters = node.test.comparators[0].value
                pur, vars1 = _normal_branch(node.body)
                pyr, vars2 = _normal_branch(node.orelse)
                # the cross product must take (v1, v2) in this order
                ok = False
                for c in ast.walk(fn):
                    if isinstance(c, ast.Call) and isinstance(c.func, ast.Attribute) and c.func.attr == "cross" \
                            and len(c.args) == 2 and all(isinstance(a, ast.Name) for a in c.args):
                        if vars1 and vars2 and (c.args[0].id, c.args[1].id) == vars1 == vars2:
                            ok = True
                        elif vars1 and vars2 and (c.args[1].id, c.args[0].id) == vars1 == vars2:
                            pur = (pur[0], pur[2], pur[1])
                            pyr = (pyr[0], pyr[2], pyr[1])
                            ok = True
                if not ok:
                    pur = pyr = None
                break
    if pur is None or pyr is None or letters is None:
        ctx.lost("tertiary.base_normal_vector.atoms")
        pin = ctx.pin("tertiary.base_normal_vector.atoms", {"letters": "AG", "purine": ["N9", "N7", "N3"],
                                                            "other": ["N1", "C4", "O2"]})
        letters, pur, pyr = pin["letters"], tuple(pin["purine"]), tuple(pin["other"])
    return letters, pur, pyr


def _clash_literals(ctx, tree):
    out = {}
    fn = find_function(tree, "find_clashes")
    mp = factor = occ_default = occ_zero = None
    isclose_kw = {}
    if fn is not None:
        for node in ast.walk(fn):
            # molprobity_factor = 0.5 if ... else 0.0
            if isinstance(node, ast.IfExp) and isinstance(node.body, ast.Constant) and isinstance(node.orelse, ast.Constant) \
                    and isinstance(node.body.value, (int, float)) and isinstance(node.orelse.value, (int, float)) \
                    and not isinstance(node.body.value, bool) and mp is None:
                mp = (node.body.value, node.orelse.value)
            # 2.0 * max_radius + molprobity_factor   (argument of query_pairs)
            if isinstance(node, ast.Call) and isinstance(node.func, ast.Attribute) and node.func.attr == "query_pairs" and node.args:
                for b in ast.walk(node.args[0]):
                    if isinstance(b, ast.BinOp) and isinstance(b.op, ast.Mult):
                        for side in (b.left, b.right):
                            if isinstance(side, ast.Constant) and isinstance(side.value, (int, float)):
                                factor = side.value
            # ai.occupancy or 1.0   /   1.0 if ai.occupancy is None else ai.occupancy
            if isinstance(node, ast.BoolOp) and isinstance(node.op, ast.Or) and len(node.values) == 2 \
                    and isinstance(node.values[0], ast.Attribute) and node.values[0].attr == "occupancy" \
                    and isinstance(node.values[1], ast.Constant):
                occ_default, occ_zero = node.values[1].value, True
            if isinstance(node, ast.IfExp) and isinstance(node.test, ast.Compare) and len(node.test.ops) == 1 \
                    and isinstance(node.test.ops[0], (ast.Is, ast.IsNot)) \
                    and isinstance(node.test.comparators[0], ast.Constant) and node.test.comparators[0].value is None \
                    and isinstance(node.test.left, ast.Attribute) and node.test.left.attr == "occupancy":
                const = node.body if isinstance(node.test.ops[0], ast.Is) else node.orelse
                if isinstance(const, ast.Constant) and occ_default is None:
                    occ_default, occ_zero = const.value, False
            if isinstance(node, ast.Call) and isinstance(node.func, ast.Attribute) and node.func.attr == "isclose":
                for kw in node.keywords:
                    if isinstance(kw.value, ast.Constant):
                        isclose_kw[kw.arg] = kw.value.value
    if mp is None:
        ctx.lost("clashfinder.molprobity_factor")
        mp = tuple(ctx.pin("clashfinder.molprobity_factor", [0.5, 0.0]))
    if factor is None:
        ctx.lost("clashfinder.query_factor")
        factor = ctx.pin("clashfinder.query_factor", 2.0)
    if occ_default is None:
        ctx.lost("clashfinder.occupancy_default")
        occ_default, occ_zero = ctx.pin("clashfinder.occupancy_default", [1.0, False])
    out["mp"], out["factor"], out["occ_default"], out["occ_zero"] = mp, factor, occ_default, occ_zero
    # math.isclose defaults (live) unless overridden at the call site
    rel, ab = 1e-09, 0.0
    m = re.search(r"rel_tol=([0-9.e+-]+), abs_tol=([0-9.e+-]+)", getattr(math.isclose, "__text_signature__", "") or "")
    if m:
        rel, ab = float(m.group(1)), float(m.group(2))
    out["rel_tol"] = isclose_kw.get("rel_tol", rel)
    out["abs_tol"] = isclose_kw.get("abs_tol", ab)

    # main(): which dictionary does the running per-chain / per-residue maximum read?
    fn = find_function(tree, "main")
    reads = {}
    if fn is not None:
        for node in ast.walk(fn):
            if isinstance(node, ast.Assign) and len(node.targets) == 1 and isinstance(node.targets[0], ast.Subscript) \
                    and isinstance(node.targets[0].value, ast.Name):
                tgt = node.targets[0].value.id
                if not tgt.startswith("max_occupancy"):
                    continue
                src = None
                for c in ast.walk(node.value):
                    if isinstance(c, ast.Call) and isinstance(c.func, ast.Attribute) and c.func.attr == "get" \
                            and isinstance(c.func.value, ast.Name):
                        src = c.func.value.id
                    if isinstance(c, ast.Subscript) and isinstance(c.value, ast.Name) and c.value.id.startswith("max_occupancy"):
                        src = c.value.id
                reads[tgt] = src
    chain_t = [t for t in reads if "chain" in t]
    res_t = [t for t in reads if "residue" in t]
    if len(chain_t) == 1 and len(res_t) == 1 and reads[chain_t[0]] and reads[res_t[0]]:
        out["chain_ok"] = reads[chain_t[0]] == chain_t[0]
        out["res_ok"] = reads[res_t[0]] == res_t[0]
    else:
        ctx.lost("clashfinder.main.running_max")
        out["chain_ok"], out["res_ok"] = ctx.pin("clashfinder.main.running_max", [True, True])
    return out


def emit(ctx):
    import rnapolis.annotator as A
    import rnapolis.clashfinder as CF
    import rnapolis.tertiary as T
    ttree, _ = module_ast("tertiary")
    ctree, _ = module_ast("clashfinder")
    out = [HEADER, "namespace RnaVerif.Gen\n"]

    # ---- stacking thresholds (live)
    dist = A.STACKING_MAX_DISTANCE
    ang_n = A.STACKING_MAX_ANGLE_BETWEEN_NORMALS
    ang_v = A.STACKING_MAX_ANGLE_BETWEEN_VECTOR_AND_NORMAL
    out.append("/-- `STACKING_MAX_DISTANCE` (angstrom) -/\ndef stackingMaxDistance : Rat := %s\n" % lean_rat(dist))
    out.append("/-- `STACKING_MAX_ANGLE_BETWEEN_NORMALS` (degrees) -/\ndef stackingMaxAngleNormals : Rat := %s\n" % lean_rat(ang_n))
    out.append("/-- `STACKING_MAX_ANGLE_BETWEEN_VECTOR_AND_NORMAL` (degrees) -/\ndef stackingMaxAngleVector : Rat := %s\n" % lean_rat(ang_v))
    lo, hi = cos_sq_enclosure(ang_n)
    out.append("/-- rational enclosure of cos^2(stackingMaxAngleNormals degrees), computed by the translator -/\n"
               "def cosSqNormalsLo : Rat := %s\ndef cosSqNormalsHi : Rat := %s\n" % (frac_rat(lo), frac_rat(hi)))
    lo, hi = cos_sq_enclosure(ang_v)
    out.append("/-- rational enclosure of cos^2(stackingMaxAngleVector degrees), computed by the translator -/\n"
               "def cosSqVectorLo : Rat := %s\ndef cosSqVectorHi : Rat := %s\n" % (frac_rat(lo), frac_rat(hi)))

    # ---- base atoms for the centroid (live), normal atoms (ast)
    ba = T.BASE_ATOMS
    out.append("/-- `tertiary.BASE_ATOMS`: atoms averaged into the base centroid, per one-letter name -/\n"
               "def baseAtoms : List (String × List String) :=\n  " +
               lean_list(["(%s, [%s])" % (lean_str(k), ", ".join(lean_str(a) for a in v)) for k, v in ba.items()], 1) + "\n")
    hv = T.Residue3D.nucleobase_heavy_atoms
    out.append("/-- `Residue3D.nucleobase_heavy_atoms` (sorted) -/\n"
               "def nucleobaseHeavyAtoms : List (String × List String) :=\n  " +
               lean_list(["(%s, [%s])" % (lean_str(k), ", ".join(lean_str(a) for a in sorted(v))) for k, v in hv.items()], 1) + "\n")
    letters, pur, pyr = _normal_atoms(ctx, ttree)
    out.append("/-- `one_letter_name in %r` selects the first triple, anything else the second;\n"
               "    a triple is (origin, first, second): normal = (first - origin) x (second - origin) -/\n"
               "def purineLetters : String := %s\n"
               "def purineNormalAtoms : String × String × String := (%s, %s, %s)\n"
               "def otherNormalAtoms : String × String × String := (%s, %s, %s)\n"
               % ((letters, lean_str(letters)) + tuple(lean_str(x) for x in pur) + tuple(lean_str(x) for x in pyr)))

    # ---- clash finder
    radii = []
    for m in CF.AtomType:
        radii.append((m.value, m.radius))
    out.append("/-- `AtomType` members with `AtomType.radius` (live objects) -/\n"
               "def clashRadii : List (String × Rat) :=\n  " +
               lean_list(["(%s, %s)" % (lean_str(k), lean_rat(v)) for k, v in radii], 2) + "\n")
    lit = _clash_literals(ctx, ctree)
    out.append("/-- addend of the MolProbity mode / of the default mode -/\n"
               "def molprobityOn : Rat := %s\ndef molprobityOff : Rat := %s\n" % (lean_rat(lit["mp"][0]), lean_rat(lit["mp"][1])))
    out.append("/-- factor in the KD-tree query radius `factor * max_radius + molprobity_factor` -/\n"
               "def kdQueryFactor : Rat := %s\n" % lean_rat(lit["factor"]))
    out.append("/-- occupancy used for a missing value; whether a zero occupancy is *also* replaced by it\n"
               "    (`x or 1.0` does, `1.0 if x is None else x` does not) -/\n"
               "def occDefault : Rat := %s\ndef occZeroIsMissing : Bool := %s\n"
               % (lean_rat(lit["occ_default"]), "true" if lit["occ_zero"] else "false"))
    out.append("/-- `math.isclose` tolerances in force at the call site -/\n"
               "def iscloseRelTol : Rat := %s\ndef iscloseAbsTol : Rat := %s\n" % (lean_rat(lit["rel_tol"]), lean_rat(lit["abs_tol"])))
    out.append("/-- does the running per-chain (per-residue) maximum in `main` read the dictionary it writes? -/\n"
               "def chainMaxReadsOwnDict : Bool := %s\ndef residueMaxReadsOwnDict : Bool := %s\n"
               % ("true" if lit["chain_ok"] else "false", "true" if lit["res_ok"] else "false"))
    out.append("end RnaVerif.Gen\n")
    return {"Geometry.lean": "\n".join(out)}

"""Translator for the 3D->2D mapping (src/rnapolis/tertiary.py: BasePair3D, Residue3D.is_connected,
Mapping2D3D) -> Generated/Mapping.lean

Live objects first (LeontisWesthof order / reverse, Saenger.is_canonical, BasePair3D.score_table,
AVERAGE_OXYGEN_PHOSPHORUS_DISTANCE_COVALENT, and a behavioural probe of BasePair3D.is_canonical that
must agree with the literals found in its body); `ast` for what lives only inside function bodies
(the two copies of pair_scoring_function, the two copies of the gap rule, the '?' placeholder, the
`1.5 *` factor, the number of rows per class of extended_dot_bracket).
"""
import ast

from genlib import HEADER, find_function, lean_char, lean_list, lean_rat, lean_str, module_ast

PIN = {
    "mapping.canonLw": ["cWW"],
    "mapping.canonLetters": ["AU", "AT", "CG", "GU"],
    "mapping.score": {"saenger": ["XIX", "XX"], "letters": ["AU", "AT", "CG"], "ret": [0, 1, 0, 1]},
    "mapping.gapBpseq": "(fg && notFirst && ((!conn) && same))",
    "mapping.gapStrands": "((!(!same)) && fg && (!conn))",
    "mapping.gapCount": "((cur - prev) - (1))",
    "mapping.gapChar": "?",
    "mapping.newStrand": "(!same)",
    "mapping.connFactor": 1.5,
    "mapping.extRowLimit": 2,
}


def _pin(ctx, name):
    ctx.lost(name)
    return ctx.pin(name, PIN[name])


class Cond:
    """boolean expressions over the atoms of the gap rule -> Lean Bool text"""

    def atom(self, n):
        s = ast.unparse(n).replace(" ", "")
        if s.endswith(".find_gaps"):
            return "fg"
        if ".is_connected(" in s:
            return "conn"
        if isinstance(n, ast.Compare) and len(n.ops) == 1:
            l, r = ast.unparse(n.left), ast.unparse(n.comparators[0])
            if l.endswith(".chain") and r.endswith(".chain") and l != r:
                if isinstance(n.ops[0], ast.Eq):
                    return "same"
                if isinstance(n.ops[0], ast.NotEq):
                    return "(!same)"
            if isinstance(n.ops[0], ast.Gt) and isinstance(n.left, ast.Name) and \
                    isinstance(n.comparators[0], ast.Constant) and n.comparators[0].value == 0:
                return "notFirst"
        raise ValueError("atom " + s)

    def b(self, n):
        if isinstance(n, ast.BoolOp):
            op = " && " if isinstance(n.op, ast.And) else " || "
            return "(" + op.join(self.b(v) for v in n.values) + ")"
        if isinstance(n, ast.UnaryOp) and isinstance(n.op, ast.Not):
            return "(!" + self.b(n.operand) + ")"
        return self.atom(n)


def _count_expr(n):
    """residue.number - previous.number - 1 -> Lean Int text over (prev cur)"""
    if isinstance(n, ast.BinOp) and isinstance(n.op, (ast.Sub, ast.Add)):
        return "(%s %s %s)" % (_count_expr(n.left), "-" if isinstance(n.op, ast.Sub) else "+", _count_expr(n.right))
    if isinstance(n, ast.Constant) and isinstance(n.value, int):
        return "(%d)" % n.value
    if isinstance(n, ast.Attribute) and n.attr == "number" and isinstance(n.value, ast.Name):
        return {"residue": "cur", "previous": "prev"}[n.value.id]
    raise ValueError("count " + ast.dump(n))


def _gap_rule(fn):
    """locate the loop that appends/assigns the placeholder; return (condition text, count text, char).
    The condition is the conjunction of the `if` tests on the path from the function body to the loop
    (negated for `else` branches)."""
    found = []

    def has_placeholder(node):
        for x in ast.walk(node):
            if isinstance(x, ast.Constant) and isinstance(x.value, str) and len(x.value) == 1 and not x.value.isalnum():
                return x.value
        return None

    def visit(stmts, path):
        for st in stmts:
            if isinstance(st, ast.For):
                it = st.iter
                ch = has_placeholder(st)
                if (ch is not None and isinstance(it, ast.Call) and getattr(it.func, "id", "") == "range"
                        and len(it.args) == 1 and not any(isinstance(x, ast.For) for b in st.body for x in ast.walk(b))):
                    found.append((list(path), it.args[0], ch))
                    continue
                visit(st.body, path)
            elif isinstance(st, ast.If):
                visit(st.body, path + [(st.test, True)])
                visit(st.orelse, path + [(st.test, False)])
            elif isinstance(st, (ast.While, ast.With)):
                visit(st.body, path)

    visit(fn.body, [])
    if len(found) != 1:
        raise ValueError("gap loop not unique: %d" % len(found))
    path, cnt, ch = found[0]
    c = Cond()
    parts = [c.b(t) if pos else "(!" + c.b(t) + ")" for t, pos in path]
    return "(" + " && ".join(parts) + ")", _count_expr(cnt), ch


def _new_strand(fn):
    """the `if residue.chain != previous.chain:` test under which a new strand is opened"""
    for node in ast.walk(fn):
        if isinstance(node, ast.If):
            try:
                t = Cond().b(node.test)
            except ValueError:
                continue
            if "same" in t and "fg" not in t and "conn" not in t:
                if any(isinstance(x, ast.Call) and getattr(x.func, "attr", "") == "append" and
                       x.args and isinstance(x.args[0], ast.Tuple) for b in node.body for x in ast.walk(b)):
                    return t
    raise ValueError("new strand test")


def _scoring(fn):
    """pair_scoring_function nested in `fn`: Saenger members and letter pairs that give the first
    return value, and the four return values in source order"""
    inner = None
    for node in ast.walk(fn):
        if isinstance(node, ast.FunctionDef) and node is not fn and node.name == "pair_scoring_function":
            inner = node
    if inner is None:
        raise ValueError("no scoring function")
    sa, letters, rets = [], [], []
    for node in ast.walk(inner):
        if isinstance(node, ast.Compare) and len(node.ops) == 1 and isinstance(node.ops[0], ast.In):
            comp = node.comparators[0]
            if isinstance(comp, (ast.Tuple, ast.List, ast.Set)):
                for e in comp.elts:
                    if isinstance(e, ast.Attribute) and getattr(e.value, "id", "") == "Saenger":
                        sa.append(e.attr)
                    elif isinstance(e, ast.Constant) and isinstance(e.value, str):
                        letters.append(e.value)
    for node in sorted((n for n in ast.walk(inner) if isinstance(n, ast.Return)), key=lambda n: n.lineno):
        v = node.value
        if isinstance(v, ast.Tuple) and isinstance(v.elts[0], ast.Constant):
            rets.append(v.elts[0].value)
            tail = [ast.unparse(e) for e in v.elts[1:]]
            if tail != ["pair.nt1", "pair.nt2"]:
                raise ValueError("sort key tail " + repr(tail))
    # shape: if saenger is not None: (if saenger in S: r0 else: r1); if letters in L: r2; r3
    tests = [n for n in ast.walk(inner) if isinstance(n, ast.If)]
    if len(rets) != 4 or len(tests) != 3 or not sa or not letters or any(len(s) != 2 for s in letters):
        raise ValueError("scoring shape")
    return {"saenger": sa, "letters": letters, "ret": rets}


def _row_limit(fn):
    """number of rows per Leontis-Westhof class in extended_dot_bracket: `row1, row2 = [], []` -> 2;
    a growing list of rows (`rows = []` + for/else) -> None (as many as needed)"""
    for node in ast.walk(fn):
        if isinstance(node, ast.Assign) and len(node.targets) == 1 and isinstance(node.targets[0], ast.Tuple):
            v = node.value
            if isinstance(v, ast.Tuple) and v.elts and all(isinstance(e, ast.List) and not e.elts for e in v.elts):
                return len(v.elts)
    for node in ast.walk(fn):
        if isinstance(node, (ast.Assign, ast.AnnAssign)):
            tgt = node.targets[0] if isinstance(node, ast.Assign) else node.target
            if isinstance(tgt, ast.Name) and tgt.id == "rows" and isinstance(node.value, ast.List) and not node.value.elts:
                if any(isinstance(x, ast.For) and x.orelse for x in ast.walk(fn)):
                    return None
    raise ValueError("row allocation shape")


def _probe_is_canonical(T, C, letters):
    """behavioural truth table of BasePair3D.is_canonical without Saenger on a small alphabet"""
    out = set()

    def res(ch, k):
        auth = C.ResidueAuth("A", k, None, ch)
        return T.Residue3D(None, auth, 1, ch, ())
    for lw in C.LeontisWesthof:
        for a in letters:
            for b in letters:
                r1, r2 = res(a, 1), res(b, 2)
                bp = T.BasePair3D(C.Residue(None, r1.auth), C.Residue(None, r2.auth), lw, None, r1, r2)
                if bp.is_canonical:
                    out.add((lw.name, "".join(sorted([a.upper(), b.upper()]))))
    return out


def emit(ctx):
    tree, src = module_ast("tertiary")
    import rnapolis.common as C
    import rnapolis.tertiary as T
    out = [HEADER, "namespace RnaVerif.Gen\n"]
    lws = list(C.LeontisWesthof)
    lwn = [m.name for m in lws]
    san = [m.name for m in C.Saenger]

    out.append("/-- `LeontisWesthof` in definition order (the order of the rows of the extended dot-bracket) -/")
    out.append("def mapLwNames : List String := " + lean_list([lean_str(n) for n in lwn], 9) + "\n")
    out.append("def mapLwValues : List String := " + lean_list([lean_str(m.value) for m in lws], 9) + "\n")
    out.append("/-- index of `lw.reverse` -/")
    out.append("def mapLwRev : List Nat := " + lean_list([str(lwn.index(m.reverse.name)) for m in lws], 18) + "\n")
    out.append("def mapSaengerNames : List String := " + lean_list([lean_str(n) for n in san], 8) + "\n")
    out.append("/-- `Saenger.is_canonical` per member -/")
    out.append("def mapSaengerCanonical : List Bool := " +
               lean_list(["true" if m.is_canonical else "false" for m in C.Saenger], 10) + "\n")
    out.append("/-- `BasePair3D.score_table.get(lw, 20)` per member (the `score` property) -/")
    dflt = None
    fn = find_function(tree, "BasePair3D.score")
    if fn is not None:
        for node in ast.walk(fn):
            if isinstance(node, ast.Call) and getattr(node.func, "attr", "") == "get" and len(node.args) == 2 \
                    and isinstance(node.args[1], ast.Constant):
                dflt = node.args[1].value
    if not isinstance(dflt, int):
        ctx.lost("mapping.scoreDefault")
        dflt = ctx.pin("mapping.scoreDefault", 20)
    out.append("def mapScoreTable : List Nat := " +
               lean_list([str(T.BasePair3D.score_table.get(m, dflt)) for m in lws], 18) + "\n")

    # --- is_canonical: literals of the body, cross-checked against the live behaviour
    canon_lw, canon_letters = None, None
    fn = find_function(tree, "BasePair3D.is_canonical")
    if fn is not None:
        canon_lw = [n.attr for n in ast.walk(fn) if isinstance(n, ast.Attribute) and getattr(n.value, "id", "") == "LeontisWesthof"]
        canon_letters = [n.value for n in ast.walk(fn) if isinstance(n, ast.Constant) and isinstance(n.value, str) and len(n.value) == 2]
        if not canon_lw or not canon_letters or any(x not in lwn for x in canon_lw):
            canon_lw = canon_letters = None
    if canon_lw is None:
        canon_lw, canon_letters = _pin(ctx, "mapping.canonLw"), _pin(ctx, "mapping.canonLetters")
    probe = _probe_is_canonical(T, C, "ACGUTNacgutn")
    want = {(l, p) for l in canon_lw for p in canon_letters}
    if probe != want:
        raise RuntimeError("is_canonical: literals %r disagree with live behaviour %r" % (sorted(want), sorted(probe)))
    out.append("/-- `BasePair3D.is_canonical` without Saenger class: `lw` must be one of these … -/")
    out.append("def mapCanonLw : List Nat := " + lean_list([str(lwn.index(x)) for x in canon_lw]) + "\n")
    out.append("/-- … and the sorted upper-cased one-letter names one of these -/")
    out.append("def mapCanonLetters : List (Char × Char) := " +
               lean_list(["(%s, %s)" % (lean_char(p[0]), lean_char(p[1])) for p in canon_letters]) + "\n")

    # --- the two copies of pair_scoring_function (conflict resolution sort key = (score, nt1, nt2))
    for k, q in ((1, "Mapping2D3D.bpseq"), (2, "Mapping2D3D._generated_bpseq_data")):
        sc = None
        fn = find_function(tree, q)
        if fn is not None:
            try:
                sc = _scoring(fn)
            except (ValueError, KeyError, IndexError, AttributeError):
                sc = None
        if sc is None or any(s not in san for s in sc["saenger"]):
            sc = _pin(ctx, "mapping.score")
        r = sc["ret"]
        out.append("/-- first component of the sort key of `pair_scoring_function` in `%s` (then `nt1`, `nt2`);\n"
                   "`sa` = index of the Saenger class if any, `(lo, hi)` = sorted upper-cased letters -/" % q)
        out.append("def mapPairScore%d (sa : Option Nat) (lo hi : Char) : Nat :=\n"
                   "  match sa with\n"
                   "  | some s => if %s.contains s then %d else %d\n"
                   "  | none => if (%s : List (Char × Char)).contains (lo, hi) then %d else %d\n" % (
                       k, lean_list([str(san.index(s)) for s in sc["saenger"]]), r[0], r[1],
                       lean_list(["(%s, %s)" % (lean_char(p[0]), lean_char(p[1])) for p in sc["letters"]]), r[2], r[3]))

    # --- gap rule, both copies
    gb = gs = None
    fn = find_function(tree, "Mapping2D3D.__generate_bpseq")
    if fn is not None:
        try:
            gb = _gap_rule(fn)
        except (ValueError, KeyError):
            gb = None
    if gb is None:
        gb = (_pin(ctx, "mapping.gapBpseq"), ctx.pin("mapping.gapCount", PIN["mapping.gapCount"]),
              ctx.pin("mapping.gapChar", PIN["mapping.gapChar"]))
    fn = find_function(tree, "Mapping2D3D.strands_sequences")
    ns = None
    if fn is not None:
        try:
            gs = _gap_rule(fn)
            ns = _new_strand(fn)
        except (ValueError, KeyError):
            gs = None
    if gs is None or ns is None:
        gs = (_pin(ctx, "mapping.gapStrands"), ctx.pin("mapping.gapCount", PIN["mapping.gapCount"]),
              ctx.pin("mapping.gapChar", PIN["mapping.gapChar"]))
        ns = ctx.pin("mapping.newStrand", PIN["mapping.newStrand"])
    out.append("/-- `__generate_bpseq`: placeholders are written before a nucleotide iff … (`fg` = find_gaps,\n"
               "`notFirst` = `j > 0`, `conn` = `previous.is_connected(residue)`, `same` = equal chains) -/")
    out.append("def mapGapCondBpseq (fg notFirst conn same : Bool) : Bool :=\n  %s\n" % gb[0])
    out.append("/-- … `range(count)` of them -/")
    out.append("def mapGapCountBpseq (prev cur : Int) : Int :=\n  %s\n" % gb[1])
    out.append("def mapGapCharBpseq : Char := %s\n" % lean_char(gb[2]))
    out.append("/-- `strands_sequences`: a new strand is opened iff … -/")
    out.append("def mapNewStrand (same : Bool) : Bool :=\n  %s\n" % ns)
    out.append("/-- … otherwise placeholders are written iff … -/")
    out.append("def mapGapCondStrands (fg conn same : Bool) : Bool :=\n  %s\n" % gs[0])
    out.append("def mapGapCountStrands (prev cur : Int) : Int :=\n  %s\n" % gs[1])
    out.append("def mapGapCharStrands : Char := %s\n" % lean_char(gs[2]))

    # --- connectivity threshold: distance < factor * AVERAGE_OXYGEN_PHOSPHORUS_DISTANCE_COVALENT
    factor, strict = None, None
    fn = find_function(tree, "Residue3D.is_connected")
    if fn is not None:
        for node in ast.walk(fn):
            if isinstance(node, ast.Compare) and len(node.ops) == 1 and isinstance(node.ops[0], (ast.Lt, ast.LtE)):
                r = node.comparators[0]
                if isinstance(r, ast.BinOp) and isinstance(r.op, ast.Mult) and isinstance(r.left, ast.Constant) \
                        and isinstance(r.right, ast.Name) and r.right.id == "AVERAGE_OXYGEN_PHOSPHORUS_DISTANCE_COVALENT":
                    factor, strict = r.left.value, isinstance(node.ops[0], ast.Lt)
    if factor is None:
        factor, strict = _pin(ctx, "mapping.connFactor"), True
    out.append("/-- `is_connected`: O3'…P distance `<` (strict = %s) `mapConnFactor * mapConnOP` -/" % strict)
    out.append("def mapConnFactor : Rat := %s" % lean_rat(factor))
    out.append("def mapConnOP : Rat := %s" % lean_rat(T.AVERAGE_OXYGEN_PHOSPHORUS_DISTANCE_COVALENT))
    out.append("def mapConnStrict : Bool := %s\n" % ("true" if strict else "false"))

    # --- rows per class of the extended dot-bracket
    fn = find_function(tree, "Mapping2D3D.extended_dot_bracket")
    lim = "lost"
    if fn is not None:
        try:
            lim = _row_limit(fn)
        except ValueError:
            lim = "lost"
    if lim == "lost":
        lim = _pin(ctx, "mapping.extRowLimit")
    out.append("/-- rows per Leontis-Westhof class in `extended_dot_bracket`: `some k` = the first k-1 rows are filled\n"
               "greedily and the k-th takes everything left; `none` = greedy, as many rows as needed -/")
    out.append("def mapExtRowLimit : Option Nat := %s\n" % ("none" if lim is None else "some %d" % lim))
    out.append("end RnaVerif.Gen\n")
    return {"Mapping.lean": "\n".join(out)}

"""Translator for the coordinate-dependent tests of `Residue3D.is_nucleotide` and
`Residue3D.is_connected` (src/rnapolis/tertiary.py) -> Generated/Nucleotide.lean

These two predicates decide which residues enter the derived secondary structure and where strands
are broken; they are the only places where coordinates enter the 3D -> 2D step (C05 measures their
margins).  `ast` only: the literals live inside the method bodies.
  * `distance_threshold = 2.0` and the `<=` of the comparisons,
  * the atom pairs tested: ("P", "O5'") and ("C1'", x) for x in ["N9", "N1"],
  * `is_connected`: find_atom("O3'") / find_atom("P") (the factor and the constant are in Mapping.lean).
"""
import ast

from genlib import HEADER, find_function, lean_list, lean_rat, lean_str, module_ast

PIN = {
    "nucleotide.threshold": 2.0,
    "nucleotide.pairs": [["P", "O5'"], ["C1'", "N9"], ["C1'", "N1"]],
    "nucleotide.link": ["O3'", "P"],
}


def _pin(ctx, name):
    ctx.lost(name)
    return ctx.pin(name, PIN[name])


def _threshold(fn):
    for node in ast.walk(fn):
        if (isinstance(node, ast.Assign) and len(node.targets) == 1 and isinstance(node.targets[0], ast.Name)
                and node.targets[0].id == "distance_threshold" and isinstance(node.value, ast.Constant)
                and isinstance(node.value.value, (int, float))):
            return float(node.value.value)
    return None


def _pairs(fn):
    """[(a, b)] from `"a" in residue_atoms and "b" in residue_atoms` and
    `if "c" in residue_atoms: ... for x in [..]`"""
    out = []
    for node in ast.walk(fn):
        if isinstance(node, ast.If):
            t = node.test
            names = []
            tests = t.values if isinstance(t, ast.BoolOp) and isinstance(t.op, ast.And) else [t]
            for c in tests:
                if (isinstance(c, ast.Compare) and len(c.ops) == 1 and isinstance(c.ops[0], ast.In)
                        and isinstance(c.left, ast.Constant) and isinstance(c.left.value, str)):
                    names.append(c.left.value)
            if len(names) == 2 and len(tests) == 2:
                out.append((names[0], names[1]))
            elif len(names) == 1 and len(tests) == 1:
                for sub in node.body:
                    if isinstance(sub, ast.For) and isinstance(sub.iter, (ast.List, ast.Tuple)):
                        xs = [e.value for e in sub.iter.elts if isinstance(e, ast.Constant) and isinstance(e.value, str)]
                        if xs and len(xs) == len(sub.iter.elts):
                            out += [(names[0], x) for x in xs]
    return out


def _strict_le(fn):
    """every comparison against distance_threshold is `<=`"""
    ops = []
    for node in ast.walk(fn):
        if isinstance(node, ast.Compare) and len(node.ops) == 1 and isinstance(node.comparators[0], ast.Name) \
                and node.comparators[0].id == "distance_threshold":
            ops.append(type(node.ops[0]).__name__)
    return ops


def _link(fn):
    xs = []
    for node in ast.walk(fn):
        if (isinstance(node, ast.Call) and isinstance(node.func, ast.Attribute) and node.func.attr == "find_atom"
                and len(node.args) == 1 and isinstance(node.args[0], ast.Constant) and isinstance(node.args[0].value, str)):
            xs.append((node.lineno, node.col_offset, node.args[0].value))
    xs.sort()
    return [x[2] for x in xs]


def emit(ctx):
    tree, _ = module_ast("tertiary")
    fn = find_function(tree, "Residue3D.is_nucleotide")
    thr = _threshold(fn) if fn is not None else None
    if thr is None:
        thr = _pin(ctx, "nucleotide.threshold")
    pairs = _pairs(fn) if fn is not None else []
    ops = _strict_le(fn) if fn is not None else []
    if len(pairs) < 1 or not ops or any(o != "LtE" for o in ops):
        pairs = [tuple(p) for p in _pin(ctx, "nucleotide.pairs")]
    fc = find_function(tree, "Residue3D.is_connected")
    link = _link(fc) if fc is not None else []
    if len(link) != 2:
        link = _pin(ctx, "nucleotide.link")
    out = [HEADER, "namespace RnaVerif.Gen\n"]
    out.append("/-- `distance_threshold` of `Residue3D.is_nucleotide` (comparisons are `<=`) -/")
    out.append("def nuclConnThreshold : Rat := %s\n" % lean_rat(thr))
    out.append("/-- the atom pairs whose distance `is_nucleotide` may compare with it -/")
    out.append("def nuclConnPairs : List (String × String) := %s\n" % lean_list(
        ["(%s, %s)" % (lean_str(a), lean_str(b)) for a, b in pairs]))
    out.append("/-- `is_connected(next)`: atom of this residue, atom of the next one -/")
    out.append("def linkAtoms : String × String := (%s, %s)\n" % (lean_str(link[0]), lean_str(link[1])))
    out.append("end RnaVerif.Gen")
    return {"Nucleotide.lean": "\n".join(out) + "\n"}

"""Translator for src/rnapolis/parser.py (reader v1) -> Generated/Parser.lean

Extracted (order of trust: ast shape -> live probe of the running functions -> pinned default):

* `parse_pdb`: record-name tests of the if/elif chain over the line variable, the column slices
  of the ATOM/HETATM branch (resolved through the positional arguments of the `Atom(...)` and
  `ResidueAuth(...)` constructor calls, so renaming a local variable is harmless), the slice of the
  MODEL number and the MODRES slices/indices; the "blank" test value of the insertion code;
* `filter_clashing_atoms`: the default of `clash_distance` (live signature), the attribute tuple used
  as de-duplication key (ast), whether clashing pairs are restricted to one model (ast + live
  probe), whether the occupancy comparison is None-safe (live probe);
* `parse_cif`: the `_atom_site` attribute names read in the row loop, the values treated as the
  "absent" marker for the insertion code and for the occupancy, the default model number.
"""
import ast
import inspect
from fractions import Fraction

from genlib import HEADER, find_function, lean_list, lean_rat, lean_str, module_ast

PIN = {
    "parser.pdbRecordTests": ["MODEL", "ATOM", "HETATM", "MODRES"],
    "parser.pdbSlices": {"atomName": (12, 16), "resName": (17, 20), "chain": (21, None), "resNum": (22, 26), "icode": (26, None),
                         "x": (30, 38), "y": (38, 46), "z": (46, 54), "occ": (54, 60)},
    "parser.pdbModelSlice": (10, 14),
    "parser.pdbModres": {"name": (12, 15), "chain": (16, None), "num": (18, 22), "icode": (23, None), "std": (24, 27)},
    "parser.dedupKey": ["label", "auth", "name"],
    "parser.cifAttrs": ["label_entity_id", "label_asym_id", "label_seq_id", "label_comp_id", "auth_asym_id", "auth_seq_id",
                        "auth_comp_id", "pdbx_PDB_ins_code", "pdbx_PDB_model_num", "label_atom_id", "Cartn_x", "Cartn_y",
                        "Cartn_z", "occupancy"],
}


def _line_loop(fn):
    """the `for <line> in ...readlines()` loop of parse_pdb and its loop variable"""
    for node in ast.walk(fn):
        if isinstance(node, ast.For) and isinstance(node.target, ast.Name):
            tests = [n for n in ast.walk(node) if isinstance(n, ast.Call) and isinstance(n.func, ast.Attribute)
                     and n.func.attr == "startswith" and isinstance(n.func.value, ast.Name) and n.func.value.id == node.target.id]
            if tests:
                return node, node.target.id
    return None, None


def _startswith_consts(test, var):
    out = []
    for n in ast.walk(test):
        if (isinstance(n, ast.Call) and isinstance(n.func, ast.Attribute) and n.func.attr == "startswith"
                and isinstance(n.func.value, ast.Name) and n.func.value.id == var and n.args):
            a = n.args[0]
            if isinstance(a, ast.Constant) and isinstance(a.value, str):
                out.append(a.value)
            elif isinstance(a, ast.Tuple):
                out += [e.value for e in a.elts if isinstance(e, ast.Constant)]
    return out


def _branches(loop, var):
    """[(record names, body)] of the if/elif chain testing `var.startswith`"""
    out = []
    for st in loop.body:
        node = st
        while isinstance(node, ast.If):
            names = _startswith_consts(node.test, var)
            if names:
                out.append((names, node.body))
            node = node.orelse[0] if len(node.orelse) == 1 and isinstance(node.orelse[0], ast.If) else None
    return out


def _slice_of(expr, var):
    """first subscript of the line variable inside expr -> (lo, hi) (hi None = single index)"""
    for n in ast.walk(expr):
        if isinstance(n, ast.Subscript) and isinstance(n.value, ast.Name) and n.value.id == var:
            s = n.slice
            if isinstance(s, ast.Slice):
                lo = s.lower.value if isinstance(s.lower, ast.Constant) else None
                hi = s.upper.value if isinstance(s.upper, ast.Constant) else None
                if isinstance(lo, int) and isinstance(hi, int):
                    return (lo, hi)
            elif isinstance(s, ast.Constant) and isinstance(s.value, int):
                return (s.value, None)
    return None


def _assignments(body):
    env = {}
    for st in body:
        for n in ast.walk(st):
            if isinstance(n, ast.Assign) and len(n.targets) == 1 and isinstance(n.targets[0], ast.Name):
                env[n.targets[0].id] = n.value
    return env


def _call_named(body, name):
    for st in body:
        for n in ast.walk(st):
            if isinstance(n, ast.Call) and getattr(n.func, "id", getattr(n.func, "attr", None)) == name:
                return n
    return None


def _resolve(expr, env, var, depth=0):
    """slice of the line variable that flows into expr (following local names)"""
    s = _slice_of(expr, var)
    if s is not None:
        return s
    if isinstance(expr, ast.Name) and expr.id in env and depth < 4:
        return _resolve(env[expr.id], env, var, depth + 1)
    return None


def _pdb(ctx, tree):
    fn = find_function(tree, "parse_pdb")
    tests = slices = model_slice = modres = None
    blank = " "
    if fn is not None:
        loop, var = _line_loop(fn)
        if loop is not None:
            br = _branches(loop, var)
            tests = [n for names, _ in br for n in names]
            for names, body in br:
                env = _assignments(body)
                if "ATOM" in names:
                    atom = _call_named(body, "Atom")
                    auth = _call_named(body, "ResidueAuth")
                    got = {}
                    if atom is not None and len(atom.args) >= 9 and auth is not None and len(auth.args) >= 4:
                        m = {"atomName": atom.args[4], "x": atom.args[5], "y": atom.args[6], "z": atom.args[7], "occ": atom.args[8],
                             "chain": auth.args[0], "resNum": auth.args[1], "icode": auth.args[2], "resName": auth.args[3]}
                        for k, e in m.items():
                            got[k] = _resolve(e, env, var)
                        # the value an insertion-code column is compared with to mean "absent"
                        e = auth.args[2]
                        e = env.get(e.id, e) if isinstance(e, ast.Name) else e
                        for n in ast.walk(e):
                            if isinstance(n, ast.Compare) and isinstance(n.comparators[0], ast.Constant) \
                                    and isinstance(n.comparators[0].value, str):
                                blank = n.comparators[0].value
                    if got and all(v is not None for v in got.values()):
                        slices = got
                elif names == ["MODEL"]:
                    for st in body:
                        s = _slice_of(st, var)
                        if s is not None:
                            model_slice = s
                elif names == ["MODRES"]:
                    auth = _call_named(body, "ResidueAuth")
                    if auth is not None and len(auth.args) >= 4:
                        got = {"chain": _resolve(auth.args[0], env, var), "num": _resolve(auth.args[1], env, var),
                               "icode": _resolve(auth.args[2], env, var), "name": _resolve(auth.args[3], env, var)}
                        std = None
                        for n in ast.walk(ast.Module(body=body, type_ignores=[])):
                            if isinstance(n, ast.Assign) and isinstance(n.targets[0], ast.Subscript):
                                std = _resolve(n.value, env, var)
                        got["std"] = std
                        if all(v is not None for v in got.values()):
                            modres = got
    if not tests:
        ctx.lost("parser.pdbRecordTests")
        tests = PIN["parser.pdbRecordTests"]
    if slices is None:
        ctx.lost("parser.pdbSlices")
        slices = {k: tuple(v) for k, v in PIN["parser.pdbSlices"].items()}
    if model_slice is None or model_slice[1] is None:
        ctx.lost("parser.pdbModelSlice")
        model_slice = PIN["parser.pdbModelSlice"]
    if modres is None:
        ctx.lost("parser.pdbModres")
        modres = {k: tuple(v) for k, v in PIN["parser.pdbModres"].items()}
    return tests, slices, model_slice, modres, blank


def _mk_atom(model, name, x, occ, num=1):
    from rnapolis.common import ResidueAuth
    from rnapolis.tertiary import Atom
    return Atom(None, None, ResidueAuth("A", num, None, "G"), model, name, x, 0.0, 0.0, occ)


def _live_filter_flags(ctx):
    """behaviour of the running `filter_clashing_atoms` on four two-atom inputs"""
    from rnapolis.parser import filter_clashing_atoms as f
    far = _mk_atom(1, "X9", 50.0, 1.0, num=9)
    out = {}
    try:
        r = f([_mk_atom(1, "P", 0.0, 1.0), _mk_atom(2, "P", 10.0, 1.0), far])
        out["keyModel"] = len(r) == 3
    except Exception:
        out["keyModel"] = None
    try:
        r = f([_mk_atom(1, "P", 0.0, 1.0), _mk_atom(2, "C1'", 0.1, 1.0), far])
        out["clashSameModel"] = len(r) == 3
    except Exception:
        out["clashSameModel"] = None
    try:
        r = f([_mk_atom(1, "P", 0.0, None), _mk_atom(1, "P", 10.0, 0.5), _mk_atom(1, "C1'", 20.0, 0.5), _mk_atom(1, "C1'", 30.0, None), far])
        xs = sorted(a.x for a in r)
        out["noneSafe"] = True if xs == [10.0, 20.0, 50.0] else "other"
    except TypeError:
        out["noneSafe"] = False
    except Exception:
        out["noneSafe"] = "other"
    return out


def _filter(ctx, tree):
    import rnapolis.parser as P
    fn = find_function(tree, "filter_clashing_atoms")
    # clash distance: the default the running code uses
    try:
        clash = inspect.signature(P.filter_clashing_atoms).parameters["clash_distance"].default
        assert isinstance(clash, (int, float))
    except Exception:
        ctx.lost("parser.clashDistance")
        clash = 0.5
    key = None
    same_model_ast = False
    if fn is not None:
        for n in ast.walk(fn):
            if isinstance(n, ast.Assign) and isinstance(n.value, ast.Tuple) and len(n.value.elts) >= 2 \
                    and all(isinstance(e, ast.Attribute) and isinstance(e.value, ast.Name) for e in n.value.elts) \
                    and len({e.value.id for e in n.value.elts}) == 1 and key is None:
                key = [e.attr for e in n.value.elts]
            if isinstance(n, ast.Compare) and len(n.ops) == 1 and isinstance(n.ops[0], (ast.Eq, ast.NotEq)):
                l, r = n.left, n.comparators[0]
                if isinstance(l, ast.Attribute) and isinstance(r, ast.Attribute) and l.attr == "model" and r.attr == "model":
                    same_model_ast = True
    live = _live_filter_flags(ctx)
    if key is None:
        ctx.lost("parser.dedupKey")
        key = list(PIN["parser.dedupKey"])
        if live.get("keyModel"):
            key = ["model"] + key
    elif live.get("keyModel") is not None and live["keyModel"] != ("model" in key):
        ctx.lost("parser.dedupKey(live-disagrees)")
        key = [k for k in key if k != "model"]
        if live["keyModel"]:
            key = ["model"] + key
    same_model = same_model_ast
    if live.get("clashSameModel") is not None and live["clashSameModel"] != same_model_ast:
        ctx.lost("parser.clashSameModel")
        same_model = live["clashSameModel"]
    none_safe = live.get("noneSafe")
    if none_safe not in (True, False):
        ctx.lost("parser.occNoneSafe")
        none_safe = False
    return clash, key, same_model, none_safe


def _consts(node):
    if isinstance(node, ast.Constant) and isinstance(node.value, str):
        return [node.value]
    if isinstance(node, (ast.Tuple, ast.List, ast.Set)):
        return [e.value for e in node.elts if isinstance(e, ast.Constant) and isinstance(e.value, str)]
    return []


def _cif(ctx, tree):
    fn = find_function(tree, "parse_cif")
    attrs, icode_null, occ_null, model_default = [], [], [], None
    if fn is not None:
        loop = None
        for n in ast.walk(fn):
            if isinstance(n, ast.For) and "atom_site" in ast.unparse(n.iter):
                loop = n
                break
        if loop is not None:
            dict_names = set()
            for n in ast.walk(loop):
                if isinstance(n, ast.Assign) and isinstance(n.value, ast.Call) and getattr(n.value.func, "id", "") == "dict":
                    dict_names.add(n.targets[0].id)
            for n in ast.walk(loop):
                name = None
                if isinstance(n, ast.Call) and isinstance(n.func, ast.Attribute) and n.func.attr == "get" \
                        and isinstance(n.func.value, ast.Name) and n.func.value.id in dict_names and n.args \
                        and isinstance(n.args[0], ast.Constant):
                    name = n.args[0].value
                    if name == "pdbx_PDB_model_num" and len(n.args) > 1 and isinstance(n.args[1], ast.Constant):
                        model_default = str(n.args[1].value)
                elif isinstance(n, ast.Subscript) and isinstance(n.value, ast.Name) and n.value.id in dict_names \
                        and isinstance(n.slice, ast.Constant):
                    name = n.slice.value
                if isinstance(name, str) and name not in attrs:
                    attrs.append((n.lineno, n.col_offset, name))
            seen = []
            for _, _, a in sorted(attrs):
                if a not in seen:
                    seen.append(a)
            attrs = seen
            for n in ast.walk(loop):
                if isinstance(n, ast.Compare) and len(n.ops) == 1:
                    subj = ast.unparse(n.left).lower()
                    vals = [v for v in _consts(n.comparators[0]) if v in ("?", ".")]
                    if not vals:
                        continue
                    if "ins" in subj or "icode" in subj:
                        icode_null += [v for v in vals if v not in icode_null]
                    elif "occupancy" in subj or "occ" in subj:
                        occ_null += [v for v in vals if v not in occ_null]
    if not attrs:
        ctx.lost("parser.cifAttrs")
        attrs = list(PIN["parser.cifAttrs"])
    if model_default is None:
        ctx.lost("parser.cifModelDefault")
        model_default = "1"
    # live cross-check of the marker sets through the running parse_cif
    live = _live_cif_markers()
    if live is not None:
        li, lo = live
        if sorted(li) != sorted(icode_null):
            ctx.lost("parser.cifIcodeNull")
            icode_null = li
        if sorted(lo) != sorted(occ_null):
            ctx.lost("parser.cifOccNull")
            occ_null = lo
    return attrs, icode_null, occ_null, model_default


def _live_cif_markers():
    """which of '?', '.' the running parse_cif reads as "absent" for insertion code / occupancy"""
    import os
    import tempfile
    import contextlib
    import io
    try:
        from rnapolis.parser import parse_cif
        ic, oc = [], []
        for field in ("icode", "occ"):
            for mk in ("?", "."):
                txt = ("data_p\nloop_\n_atom_site.label_atom_id\n_atom_site.label_comp_id\n_atom_site.label_asym_id\n"
                       "_atom_site.label_seq_id\n_atom_site.pdbx_PDB_ins_code\n_atom_site.Cartn_x\n_atom_site.Cartn_y\n"
                       "_atom_site.Cartn_z\n_atom_site.occupancy\n_atom_site.auth_seq_id\n_atom_site.auth_comp_id\n"
                       "_atom_site.auth_asym_id\n_atom_site.pdbx_PDB_model_num\n"
                       "P G A 1 %s 1.000 2.000 3.000 %s 1 G A 1\n#\n" % (mk if field == "icode" else "?", mk if field == "occ" else "1.00"))
                fd, path = tempfile.mkstemp(suffix=".cif")
                try:
                    with os.fdopen(fd, "w") as f:
                        f.write(txt)
                    with open(path) as f, contextlib.redirect_stdout(io.StringIO()), contextlib.redirect_stderr(io.StringIO()):
                        try:
                            atoms = parse_cif(f)[0]
                        except ValueError:
                            atoms = None
                    if atoms is not None and len(atoms) == 1:
                        if field == "icode" and atoms[0].auth.icode is None:
                            ic.append(mk)
                        if field == "occ" and atoms[0].occupancy is None:
                            oc.append(mk)
                finally:
                    os.unlink(path)
        return ic, oc
    except Exception:
        return None


def _live_cif_hetero_rows():
    """does the running parse_cif keep a row that has neither label_seq_id nor auth_comp_id?"""
    import os
    import tempfile
    import contextlib
    import io
    try:
        from rnapolis.parser import parse_cif
        txt = ("data_p\nloop_\n_atom_site.label_atom_id\n_atom_site.label_comp_id\n_atom_site.label_asym_id\n"
               "_atom_site.label_seq_id\n_atom_site.Cartn_x\n_atom_site.Cartn_y\n_atom_site.Cartn_z\n_atom_site.occupancy\n"
               "_atom_site.auth_seq_id\n_atom_site.auth_asym_id\n_atom_site.pdbx_PDB_model_num\n"
               "P G A 1 1.000 2.000 3.000 1.00 1 A 1\nMG MG B . 9.000 2.000 3.000 1.00 101 A 1\n#\n")
        fd, path = tempfile.mkstemp(suffix=".cif")
        try:
            with os.fdopen(fd, "w") as f:
                f.write(txt)
            with open(path) as f, contextlib.redirect_stdout(io.StringIO()), contextlib.redirect_stderr(io.StringIO()):
                atoms = parse_cif(f)[0]
        finally:
            os.unlink(path)
        if len(atoms) == 2:
            a = [x for x in atoms if x.name == "MG"][0]
            if a.label is None and a.auth is not None and (a.auth.chain, a.auth.number, a.auth.name) == ("A", 101, "MG"):
                return True
            return None
        return False if len(atoms) == 1 else None
    except Exception:
        return None


def _sl(v):
    return "(%d, %d)" % (v[0], v[1]) if v[1] is not None else "(%d, %d)" % (v[0], v[0] + 1)


def emit(ctx):
    tree, _src = module_ast("parser")
    tests, slices, model_slice, modres, blank = _pdb(ctx, tree)
    clash, key, same_model, none_safe = _filter(ctx, tree)
    attrs, icode_null, occ_null, model_default = _cif(ctx, tree)
    o = [HEADER, "namespace RnaVerif.Gen.Parser\n"]
    o.append("/-- `line.startswith(..)` tests of `parse_pdb`, in the order of the if/elif chain -/")
    o.append("def pdbRecordTests : List String := " + lean_list([lean_str(t) for t in tests]) + "\n")
    o.append("/-! column slices `line[lo:hi]` of the ATOM/HETATM branch (single index `line[i]` = `(i, i+1)`, and\n"
             "`…IsIndex` tells that a too short line raises IndexError instead of giving an empty slice) -/")
    for k in ("atomName", "resName", "chain", "resNum", "icode", "x", "y", "z", "occ"):
        o.append("def pdb%s : Nat × Nat := %s" % (k[0].upper() + k[1:], _sl(slices[k])))
    o.append("def pdbChainIsIndex : Bool := %s" % ("true" if slices["chain"][1] is None else "false"))
    o.append("def pdbIcodeIsIndex : Bool := %s" % ("true" if slices["icode"][1] is None else "false"))
    o.append("/-- the insertion-code column value that means \"no insertion code\" -/")
    o.append("def pdbIcodeBlank : String := %s" % lean_str(blank))
    o.append("def pdbModelNum : Nat × Nat := %s\n" % _sl(model_slice))
    o.append("/-! MODRES branch: original name, chain (index), number, insertion code (index), standard name -/")
    for k in ("name", "chain", "num", "icode", "std"):
        o.append("def modres%s : Nat × Nat := %s" % (k[0].upper() + k[1:], _sl(modres[k])))
    o.append("")
    o.append("/-- default of `filter_clashing_atoms(clash_distance=…)` -/")
    o.append("def clashDistance : Rat := %s" % lean_rat(clash))
    fr = Fraction(repr(float(clash)))
    o.append("/-- the same value as numerator / denominator (repr-exact) -/")
    o.append("def clashNum : Nat := %d" % fr.numerator)
    o.append("def clashDen : Nat := %d" % fr.denominator)
    o.append("/-- attributes of `Atom` in the tuple used as de-duplication key -/")
    o.append("def dedupKey : List String := " + lean_list([lean_str(k) for k in key]))
    o.append("/-- clashing pairs are only considered inside one model -/")
    o.append("def clashSameModel : Bool := %s" % ("true" if same_model else "false"))
    o.append("/-- comparing occupancies of two copies tolerates an absent occupancy (else: TypeError) -/")
    o.append("def occNoneSafe : Bool := %s\n" % ("true" if none_safe else "false"))
    o.append("/-- `_atom_site` attributes read by `parse_cif`, in source order -/")
    o.append("def cifAttrs : List String := " + lean_list([lean_str(a) for a in attrs], 4))
    o.append("/-- values of `pdbx_PDB_ins_code` read as \"no insertion code\" -/")
    o.append("def cifIcodeNull : List String := " + lean_list([lean_str(a) for a in icode_null]))
    o.append("/-- values of `occupancy` read as \"no occupancy\" -/")
    o.append("def cifOccNull : List String := " + lean_list([lean_str(a) for a in occ_null]))
    o.append("def cifModelDefault : String := %s" % lean_str(model_default))
    het = _live_cif_hetero_rows()
    if het is None:
        ctx.lost("parser.cifAuthNameFallback")
        het = False
    o.append("/-- a row without label_seq_id and without auth_comp_id gets an auth identity named by label_comp_id\n"
             "(else it is skipped) -/")
    o.append("def cifAuthNameFallback : Bool := %s\n" % ("true" if het else "false"))
    o.append("end RnaVerif.Gen.Parser\n")
    return {"Parser.lean": "\n".join(o)}

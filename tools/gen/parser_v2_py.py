"""Translator for src/rnapolis/parser_v2.py -> Generated/ParserV2.lean

Extracted (all with `ast`, by *shape*; nothing depends on line numbers):

* `parse_pdb_atoms`   : slices of the line variable per field, the MODEL slice, accepted record names,
                        the fields stored as None when blank
* `_format_pdb_atom_line`: per field justification / width / truncation / float spec, the atom-name rule,
                        the charge rendering widths, the f-string line template, the final `ljust`
* `write_pdb`         : TER template (both copies must agree), MODEL prefix and width, which mmCIF
                        columns feed which field (preference order)
* `can_write_pdb`     : the three limits; `fit_to_pdb`: limits, chain alphabet, mmCIF key columns, `rename_map`
* `write_cif`         : attribute list and column map for PDB-derived tables, null markers, decimals
* `parse_cif_atoms`   : null markers on reading, integer / float column lists (restricted to what is used)

A value that can no longer be located is reported with ctx.lost(...) and the pinned value (the one of
the tree this framework was built against) is used.
"""
import ast
import string

from genlib import HEADER, find_function, lean_char, lean_list, lean_str, module_ast

FIELD = {
    "record_type": "record", "record_name": "record", "serial": "serial", "name": "name", "altLoc": "altLoc",
    "resName": "resName", "chainID": "chain", "resSeq": "resSeq", "iCode": "iCode", "x": "x", "y": "y", "z": "z",
    "occupancy": "occ", "tempFactor": "b", "element": "element", "charge": "charge", "model": "model",
}
ORDER = ["record", "serial", "name", "altLoc", "resName", "chain", "resSeq", "iCode", "x", "y", "z", "occ", "b",
         "element", "charge", "model"]

PIN = {
    "readerSlices": {"record": (0, 6), "serial": (6, 11), "name": (12, 16), "altLoc": (16, 17), "resName": (17, 20),
                     "chain": (21, 22), "resSeq": (22, 26), "iCode": (26, 27), "x": (30, 38), "y": (38, 46),
                     "z": (46, 54), "occ": (54, 60), "b": (60, 66), "element": (76, 78), "charge": (78, 80)},
    "modelSlice": (10, 14),
    "recordNames": ["ATOM", "HETATM"],
    "noneIfBlank": ["altLoc", "iCode", "element", "charge"],
    "writerFmt": {"record": ("text", "left", 6, None, False), "serial": ("int", "right", 5),
                  "name": ("atomName", 4, 4), "altLoc": ("text", "left", 1, 1, False),
                  "resName": ("text", "right", 3, None, False), "chain": ("text", "left", 1, 1, False),
                  "resSeq": ("int", "right", 4), "iCode": ("text", "left", 1, 1, False),
                  "x": ("fixed", 8, 3), "y": ("fixed", 8, 3), "z": ("fixed", 8, 3), "occ": ("fixed", 6, 2),
                  "b": ("fixed", 6, 2), "element": ("text", "right", 2, None, False), "charge": ("charge", 2, 2)},
    "lineTemplate": [("f", "record"), ("f", "serial"), ("l", " "), ("f", "name"), ("f", "altLoc"), ("f", "resName"),
                     ("l", " "), ("f", "chain"), ("f", "resSeq"), ("f", "iCode"), ("l", "   "), ("f", "x"), ("f", "y"),
                     ("f", "z"), ("f", "occ"), ("f", "b"), ("l", " " * 10), ("f", "element"), ("f", "charge")],
    "lineWidth": 80,
    "terTemplate": [("l", "TER   "), ("f", "serial"), ("l", "      "), ("f", "resName"), ("l", " "), ("f", "chain"),
                    ("f", "resSeq"), ("f", "iCode")],
    "terFmt": {"serial": ("int", "right", 5), "resName": ("text", "right", 3, None, True),
               "chain": ("text", "left", 0, None, False), "resSeq": ("int", "right", 4),
               "iCode": ("text", "left", 0, None, False)},
    "terWidth": 80,
    "modelPrefix": "MODEL     ", "modelWidth": 4,
    "canWrite": (99999, 1, 9999),
    # the PDB branch of can_write_pdb of the tree this framework was built against: `return True`
    "pdbAssumedToFit": True, "canWritePdbBranch": None,
    "fitLimits": (99999, 9999),
    "chainAlphabet": string.ascii_uppercase + string.ascii_lowercase + string.digits,
    "fitCifCols": {"serial": "id", "chain": "auth_asym_id", "resSeq": "auth_seq_id", "iCode": "pdbx_PDB_ins_code"},
}


# ------------------------------------------------------------------------------------------------- helpers
def _const_int(n):
    if isinstance(n, ast.Constant) and isinstance(n.value, int) and not isinstance(n.value, bool):
        return n.value
    return None


def _slice_of(node, var):
    """node is `var[a:b]` (a may be missing) -> (a, b)"""
    if (isinstance(node, ast.Subscript) and isinstance(node.value, ast.Name) and node.value.id == var
            and isinstance(node.slice, ast.Slice) and node.slice.step is None):
        lo = 0 if node.slice.lower is None else _const_int(node.slice.lower)
        hi = _const_int(node.slice.upper) if node.slice.upper is not None else None
        if lo is not None and hi is not None:
            return (lo, hi)
    return None


def _find_slice(expr, var, env):
    """first slice of the line variable inside expr, looking through local names bound to slices"""
    for n in ast.walk(expr):
        s = _slice_of(n, var)
        if s is not None:
            return s
    for n in ast.walk(expr):
        if isinstance(n, ast.Name) and n.id in env:
            return env[n.id]
    return None


def _key_of_get(expr, dictname=None):
    """the constant key K of the first `<dict>.get(K, ...)` or `<dict>[K]` inside expr"""
    for n in ast.walk(expr):
        if isinstance(n, ast.Call) and isinstance(n.func, ast.Attribute) and n.func.attr == "get" and n.args:
            if isinstance(n.args[0], ast.Constant) and isinstance(n.args[0].value, str):
                if dictname is None or (isinstance(n.func.value, ast.Name) and n.func.value.id == dictname):
                    return n.args[0].value
        if isinstance(n, ast.Subscript) and isinstance(n.slice, ast.Constant) and isinstance(n.slice.value, str):
            if dictname is None or (isinstance(n.value, ast.Name) and n.value.id == dictname):
                return n.slice.value
    return None


def _keys_of_get_ordered(expr, dictname):
    """keys of nested row.get(K1, row.get(K2, ...)) in preference order"""
    out = []

    def rec(n):
        if isinstance(n, ast.Call) and isinstance(n.func, ast.Attribute) and n.func.attr == "get" and n.args \
                and isinstance(n.func.value, ast.Name) and n.func.value.id == dictname \
                and isinstance(n.args[0], ast.Constant):
            out.append(n.args[0].value)
            for a in n.args[1:]:
                rec(a)
            return
        for ch in ast.iter_child_nodes(n):
            rec(ch)
    rec(expr)
    return out


def _analyse_text(expr):
    """method chain  X[:k].strip().ljust(w) / str(X).rjust(w) / f'{X:8.3f}'  ->  description or None"""
    just = width = trunc = None
    strip = False
    is_int = False
    n = expr
    while True:
        if isinstance(n, ast.Call) and isinstance(n.func, ast.Attribute) and n.func.attr in ("ljust", "rjust") \
                and len(n.args) == 1 and _const_int(n.args[0]) is not None:
            if just is None:
                just, width = ("left" if n.func.attr == "ljust" else "right"), _const_int(n.args[0])
            n = n.func.value
        elif isinstance(n, ast.Call) and isinstance(n.func, ast.Attribute) and n.func.attr == "strip" and not n.args:
            strip = True
            n = n.func.value
        elif isinstance(n, ast.Subscript) and isinstance(n.slice, ast.Slice) and n.slice.lower is None \
                and n.slice.step is None and _const_int(n.slice.upper) is not None:
            trunc = _const_int(n.slice.upper)
            n = n.value
        elif isinstance(n, ast.Call) and isinstance(n.func, ast.Name) and n.func.id == "str" and len(n.args) == 1:
            is_int = True
            n = n.args[0]
        else:
            break
    if isinstance(expr, ast.JoinedStr) and len(expr.values) == 1 and isinstance(expr.values[0], ast.FormattedValue):
        fv = expr.values[0]
        spec = ""
        if fv.format_spec is not None and all(isinstance(v, ast.Constant) for v in fv.format_spec.values):
            spec = "".join(v.value for v in fv.format_spec.values)
        if spec.endswith("f") and "." in spec:
            w, p = spec[:-1].split(".")
            try:
                return ("fixed", int(w or 0), int(p)), fv.value
            except ValueError:
                return None, None
        return None, None
    if just is None:
        return None, None
    if is_int:
        return ("int", just, width), n
    return ("text", just, width, trunc, strip), n


def _template(joined, varfield):
    out = []
    for v in joined.values:
        if isinstance(v, ast.Constant) and isinstance(v.value, str):
            if out and out[-1][0] == "l":
                out[-1] = ("l", out[-1][1] + v.value)
            else:
                out.append(("l", v.value))
        elif isinstance(v, ast.FormattedValue) and isinstance(v.value, ast.Name) and v.format_spec is None:
            f = varfield.get(v.value.id)
            if f is None:
                return None
            out.append(("f", f))
        else:
            return None
    return out


def _assignments(fn):
    """[(name, value, node)] for simple `name = value` anywhere in fn, in source order"""
    out = []
    for node in ast.walk(fn):
        if isinstance(node, ast.Assign) and len(node.targets) == 1 and isinstance(node.targets[0], ast.Name):
            out.append((node.targets[0].id, node.value, node))
    out.sort(key=lambda t: (t[2].lineno, t[2].col_offset))
    return out


# ------------------------------------------------------------------------------------------------- reader
def reader(tree, ctx):
    fn = find_function(tree, "parse_pdb_atoms")
    res = {}
    try:
        assert fn is not None
        # the loop variable over the lines
        linevar = None
        for node in ast.walk(fn):
            if isinstance(node, ast.For) and isinstance(node.target, ast.Name):
                subs = [n for n in ast.walk(node) if _slice_of(n, node.target.id) is not None]
                if len(subs) >= 10:
                    linevar = node.target.id
                    loop = node
        assert linevar
        env = {}
        for name, val, _ in _assignments(loop):
            s = None
            for n in ast.walk(val):
                s = _slice_of(n, linevar)
                if s is not None:
                    break
            if s is not None and not any(isinstance(n, ast.Call) and getattr(n.func, "id", "") == "int" for n in ast.walk(val)):
                env[name] = s
        slices, none_blank = {}, []
        rec = None
        for node in ast.walk(loop):
            if isinstance(node, ast.Dict) and len(node.keys) >= 10 and all(isinstance(k, ast.Constant) for k in node.keys):
                rec = node
        assert rec is not None
        model_from_state = False
        for k, v in zip(rec.keys, rec.values):
            f = FIELD.get(k.value)
            if f is None:
                continue
            if f == "model":
                model_from_state = _find_slice(v, linevar, {}) is None
                continue
            s = _find_slice(v, linevar, env)
            assert s is not None, k.value
            slices[f] = s
            if isinstance(v, ast.IfExp) and any(isinstance(x, ast.Constant) and x.value is None for x in (v.body, v.orelse)):
                none_blank.append(f)
        assert set(slices) == set(ORDER) - {"model"} and model_from_state
        res["readerSlices"] = slices
        res["noneIfBlank"] = none_blank
        # MODEL slice: int(line[a:b].strip())
        ms = None
        for node in ast.walk(loop):
            if isinstance(node, ast.Call) and getattr(node.func, "id", "") == "int":
                s = _find_slice(node, linevar, {})
                if s is not None:
                    ms = s
        assert ms is not None
        res["modelSlice"] = ms
        names = None
        for node in ast.walk(loop):
            if isinstance(node, ast.Compare) and len(node.ops) == 1 and isinstance(node.ops[0], ast.NotIn) \
                    and isinstance(node.comparators[0], (ast.List, ast.Tuple, ast.Set)):
                vals = [e.value for e in node.comparators[0].elts if isinstance(e, ast.Constant)]
                if vals and all(isinstance(x, str) for x in vals):
                    names = vals
        assert names
        res["recordNames"] = names
    except Exception:
        ctx.lost("parser_v2.parse_pdb_atoms")
        for k in ("readerSlices", "noneIfBlank", "modelSlice", "recordNames"):
            res[k] = PIN[k]
    return res


# ------------------------------------------------------------------------------------------------- atom line writer
def writer(tree, ctx):
    fn = find_function(tree, "_format_pdb_atom_line")
    res = {}
    try:
        assert fn is not None
        arg = fn.args.args[0].arg
        asg = _assignments(fn)
        # the template: the JoinedStr with the most formatted values
        tmpl = None
        for node in ast.walk(fn):
            if isinstance(node, ast.JoinedStr):
                nf = sum(isinstance(v, ast.FormattedValue) for v in node.values)
                if nf >= 10 and (tmpl is None or nf > sum(isinstance(v, ast.FormattedValue) for v in tmpl.values)):
                    tmpl = node
        assert tmpl is not None
        tvars = [v.value.id for v in tmpl.values if isinstance(v, ast.FormattedValue)]
        # which key does each template variable come from: follow assignments backwards
        key_of = {}
        for name, val, _ in asg:
            k = _key_of_get(val, arg)
            if k is not None:
                key_of.setdefault(name, k)
            else:
                for n in ast.walk(val):
                    if isinstance(n, ast.Name) and n.id in key_of:
                        key_of.setdefault(name, key_of[n.id])
                        break
        varfield = {v: FIELD[key_of[v]] for v in tvars}
        fmts = {}
        for v in tvars:
            f = varfield[v]
            vals = [val for name, val, _ in asg if name == v]
            if len(vals) == 1 and _analyse_text(vals[0])[0] is not None:
                fmts[f] = _analyse_text(vals[0])[0]
                continue
            # multi-statement fields: atom name rule, charge
            widths = set()
            truncs = set()
            for val in vals:
                d, _ = _analyse_text(val)
                if d is not None and d[0] == "text":
                    widths.add((d[1], d[2]))
                    if d[3] is not None:
                        truncs.add(d[3])
                elif isinstance(val, ast.Constant) and isinstance(val.value, str) and val.value.strip() == "" and val.value:
                    widths.add(("blank", len(val.value)))
            if f == "name":
                lim = None
                alpha = False
                for node in ast.walk(fn):
                    if isinstance(node, ast.If):
                        t = node.test
                        for c in ast.walk(t):
                            if isinstance(c, ast.Compare) and len(c.ops) == 1 and isinstance(c.ops[0], ast.Lt) \
                                    and isinstance(c.left, ast.Call) and getattr(c.left.func, "id", "") == "len":
                                lim = _const_int(c.comparators[0])
                            if isinstance(c, ast.Attribute) and c.attr == "isalpha":
                                alpha = True
                        if lim is not None and alpha:
                            # body must prepend one blank
                            pre = [n for n in ast.walk(node.body[0]) if isinstance(n, ast.BinOp) and isinstance(n.op, ast.Add)
                                   and isinstance(n.left, ast.Constant) and n.left.value == " "]
                            assert pre
                            break
                assert lim is not None and alpha and widths and all(j == "left" for j, _ in widths)
                ws = {w for _, w in widths}
                assert len(ws) == 1
                fmts[f] = ("atomName", lim, ws.pop())
            elif f == "charge":
                ws = {w for _, w in widths}
                assert len(ws) == 1 and len(truncs) == 1 and any(j == "right" for j, _ in widths)
                # the n± rendering: f"{abs(i)}{'+' if i > 0 else '-'}" guarded by `!= 0`
                ok = False
                for node in ast.walk(fn):
                    if isinstance(node, ast.JoinedStr) and len(node.values) == 2:
                        a, b = node.values
                        if isinstance(a, ast.FormattedValue) and isinstance(a.value, ast.Call) and getattr(a.value.func, "id", "") == "abs" \
                                and isinstance(b, ast.FormattedValue) and isinstance(b.value, ast.IfExp):
                            ie = b.value
                            if isinstance(ie.body, ast.Constant) and ie.body.value == "+" and isinstance(ie.orelse, ast.Constant) \
                                    and ie.orelse.value == "-" and isinstance(ie.test, ast.Compare) and isinstance(ie.test.ops[0], ast.Gt) \
                                    and _const_int(ie.test.comparators[0]) == 0:
                                ok = True
                assert ok
                fmts[f] = ("charge", truncs.pop(), ws.pop())
            else:
                raise AssertionError(f)
        t = _template(tmpl, varfield)
        assert t is not None
        lw = None
        for node in ast.walk(fn):
            if isinstance(node, ast.Return) and isinstance(node.value, ast.Call) and isinstance(node.value.func, ast.Attribute) \
                    and node.value.func.attr == "ljust":
                lw = _const_int(node.value.args[0])
        assert lw is not None
        res["writerFmt"], res["lineTemplate"], res["lineWidth"] = fmts, t, lw
    except Exception:
        ctx.lost("parser_v2._format_pdb_atom_line")
        for k in ("writerFmt", "lineTemplate", "lineWidth"):
            res[k] = PIN[k]
    return res


# ------------------------------------------------------------------------------------------------- write_pdb
def ter_and_model(tree, ctx):
    fn = find_function(tree, "write_pdb")
    res = {}
    try:
        assert fn is not None
        asg = _assignments(fn)
        # the TER f-string may live in write_pdb itself or in a helper function of the module
        asg_all = _assignments(tree)
        ters = [(n, v, node) for n, v, node in asg_all if isinstance(v, ast.JoinedStr)
                and v.values and isinstance(v.values[0], ast.Constant) and str(v.values[0].value).startswith("TER")]
        assert ters
        found = []
        for _, joined, node in ters:
            # variables of this copy: the closest preceding assignment of each name (a bare parameter stands for itself)
            varfield, fmts = {}, {}
            for fv in joined.values:
                if not isinstance(fv, ast.FormattedValue):
                    continue
                vname = fv.value.id
                cands = [(n, v, nd) for n, v, nd in asg_all if n == vname and nd.lineno < node.lineno and node.lineno - nd.lineno < 40]
                val = cands[-1][1] if cands else fv.value
                d, inner = _analyse_text(val)
                src = ast.unparse(val)
                if "serial" in src:
                    f = "serial"
                    assert any(isinstance(b, ast.BinOp) and isinstance(b.op, ast.Add) and _const_int(b.right) == 1 for b in ast.walk(val))
                elif "chain" in src:
                    f = "chain"
                elif "[2]" in src:
                    f = "resName"
                elif "[0]" in src:
                    f = "resSeq"
                elif "[1]" in src:
                    f = "iCode"
                else:
                    raise AssertionError(src)
                varfield[vname] = f
                fmts[f] = d if d is not None else ("text", "left", 0, None, False)
            found.append((_template(joined, varfield), fmts))
        assert all(x == found[0] for x in found) and found[0][0] is not None
        # the tuple (resSeq, iCode, resName) order of last_res_info
        ok = False
        for n, v, _ in asg:
            if isinstance(v, ast.Tuple) and len(v.elts) == 3:
                ks = [_key_of_get(e) for e in v.elts]
                if ks == ["resSeq", "iCode", "resName"]:
                    ok = True
        assert ok
        widths = set()
        for node in ast.walk(tree):
            if isinstance(node, ast.Call) and isinstance(node.func, ast.Attribute) and node.func.attr == "ljust" \
                    and isinstance(node.func.value, ast.Name) and node.func.value.id in {t[0] for t in ters}:
                widths.add(_const_int(node.args[0]))
        assert len(widths) == 1
        res["terTemplate"], res["terFmt"], res["terWidth"] = found[0][0], found[0][1], widths.pop()
        # MODEL line
        mp = None
        for node in ast.walk(fn):
            if isinstance(node, ast.JoinedStr) and node.values and isinstance(node.values[0], ast.Constant) \
                    and str(node.values[0].value).startswith("MODEL") and len(node.values) >= 2 \
                    and isinstance(node.values[1], ast.FormattedValue) and node.values[1].format_spec is not None:
                spec = "".join(v.value for v in node.values[1].format_spec.values)
                assert spec.startswith(">")
                tail = "".join(v.value for v in node.values[2:] if isinstance(v, ast.Constant))
                assert tail == "\n"
                mp = (node.values[0].value, int(spec[1:]))
        assert mp is not None
        res["modelPrefix"], res["modelWidth"] = mp
        consts = {n.value for n in ast.walk(fn) if isinstance(n, ast.Constant) and isinstance(n.value, str)}
        assert "ENDMDL\n" in consts and "END\n" in consts
        # behaviour flag: inside the model-change branch (the `if` whose body writes MODEL), is something TER-ish
        # written before ENDMDL?
        flag = None
        for node in ast.walk(fn):
            if isinstance(node, ast.If) and isinstance(node.test, ast.Compare) and any(
                    isinstance(n, ast.JoinedStr) and n.values and isinstance(n.values[0], ast.Constant)
                    and str(n.values[0].value).startswith("MODEL") for n in ast.walk(node)):
                body_src = [ast.unparse(st) for st in node.body]
                flag = False
                for st in node.body:
                    for sub in ast.walk(st):
                        if isinstance(sub, ast.Constant) and sub.value == "ENDMDL\n":
                            # the statement (usually an inner `if last_model is not None`) that writes ENDMDL
                            src = ast.unparse(st)
                            head = src[: src.index("ENDMDL")]
                            if "ter" in head.lower().replace("buffer", "").replace("iterrows", ""):
                                flag = True
                break
        assert flag is not None
        res["terBeforeEndmdl"] = flag
        # mmCIF branch of the data extraction: field -> preferred columns
        cifread = {}
        for node in ast.walk(fn):
            if isinstance(node, ast.Dict) and len(node.keys) >= 10 and all(isinstance(k, ast.Constant) for k in node.keys):
                rowvar = None
                for n in ast.walk(node):
                    if isinstance(n, ast.Call) and isinstance(n.func, ast.Attribute) and n.func.attr == "get" and isinstance(n.func.value, ast.Name):
                        rowvar = n.func.value.id
                        break
                cur = {}
                for k, v in zip(node.keys, node.values):
                    f = FIELD.get(k.value)
                    ks = _keys_of_get_ordered(v, rowvar)
                    if not ks and isinstance(v, ast.Name):
                        for n2, v2, nd in asg:
                            if n2 == v.id and nd.lineno < node.lineno:
                                srcs = _keys_of_get_ordered(v2, rowvar)
                                if not srcs:
                                    for n3 in ast.walk(v2):
                                        if isinstance(n3, ast.Name):
                                            for n4, v4, nd4 in asg:
                                                if n4 == n3.id and nd4.lineno < nd.lineno and _keys_of_get_ordered(v4, rowvar):
                                                    srcs = _keys_of_get_ordered(v4, rowvar)
                                ks = srcs or ks
                    cur[f] = ks
                if any("Cartn_x" in v for v in cur.values()):
                    cifread = cur
        assert set(cifread) == set(ORDER) and all(cifread.values())
        res["cifReadCols"] = cifread
    except Exception:
        ctx.lost("parser_v2.write_pdb")
        for k in ("terTemplate", "terFmt", "terWidth", "modelPrefix", "modelWidth"):
            res[k] = PIN[k]
        res["terBeforeEndmdl"] = True
        res["cifReadCols"] = {
            "record": ["group_PDB"], "serial": ["id"], "name": ["auth_atom_id", "label_atom_id"], "altLoc": ["label_alt_id"],
            "resName": ["auth_comp_id", "label_comp_id"], "chain": ["auth_asym_id", "label_asym_id"],
            "resSeq": ["auth_seq_id", "label_seq_id"], "iCode": ["pdbx_PDB_ins_code"], "x": ["Cartn_x"], "y": ["Cartn_y"],
            "z": ["Cartn_z"], "occ": ["occupancy"], "b": ["B_iso_or_equiv"], "element": ["type_symbol"],
            "charge": ["pdbx_formal_charge"], "model": ["pdbx_PDB_model_num"]}
    return res


# ------------------------------------------------------------------------------------------------- limits
def limits(tree, ctx):
    res = {}
    fn = find_function(tree, "can_write_pdb")
    # the branch `if format_type == "PDB":` — either `return True` without looking at the table (the PDB-derived table
    # is *assumed* to fit) or its own three comparisons on serial / chainID / resSeq
    pdb_if = None
    try:
        for node in ast.walk(fn):
            if isinstance(node, ast.If) and isinstance(node.test, ast.Compare) and len(node.test.ops) == 1 \
                    and isinstance(node.test.ops[0], ast.Eq) and isinstance(node.test.comparators[0], ast.Constant) \
                    and node.test.comparators[0].value == "PDB":
                pdb_if = node
                break
        assert pdb_if is not None
        inside = [n for s in pdb_if.body for n in ast.walk(s)]
        pgts = []
        for node in inside:
            if isinstance(node, ast.Compare) and len(node.ops) == 1 and isinstance(node.ops[0], ast.Gt) \
                    and _const_int(node.comparators[0]) is not None:
                pgts.append((ast.unparse(node.left), _const_int(node.comparators[0])))
        rets = [n for n in inside if isinstance(n, ast.Return)]
        if not pgts:
            # no comparison at all: every path through the branch must be `return True`
            assert rets and all(isinstance(r.value, ast.Constant) and r.value.value is True for r in rets)
            res["pdbAssumedToFit"] = True
            res["canWritePdbBranch"] = None
        else:
            pser = [c for s, c in pgts if "serial" in s]
            pch = [c for s, c in pgts if "chainID" in s]
            prs = [c for s, c in pgts if "resSeq" in s]
            assert len(pser) == 1 and len(pch) == 1 and len(prs) == 1 and len(pgts) == 3
            # shape: every comparison guards `return False`, the branch ends in `return True`
            assert any(isinstance(r.value, ast.Constant) and r.value.value is True for r in rets)
            assert sum(1 for r in rets if isinstance(r.value, ast.Constant) and r.value.value is False) == 3
            res["pdbAssumedToFit"] = False
            res["canWritePdbBranch"] = (pser[0], pch[0], prs[0])
    except Exception:
        ctx.lost("parser_v2.can_write_pdb.pdb_branch")
        res["pdbAssumedToFit"] = PIN["pdbAssumedToFit"]
        res["canWritePdbBranch"] = PIN["canWritePdbBranch"]
        pdb_if = None
    try:
        gts = []
        skip = {id(n) for s in (pdb_if.body if pdb_if is not None else []) for n in ast.walk(s)}
        for node in ast.walk(fn):
            if id(node) in skip:
                continue
            if isinstance(node, ast.Compare) and len(node.ops) == 1 and isinstance(node.ops[0], ast.Gt) \
                    and _const_int(node.comparators[0]) is not None:
                gts.append((node.lineno, ast.unparse(node.left), _const_int(node.comparators[0])))
        gts.sort()
        ser = [c for _, s, c in gts if "'id'" in s or '"id"' in s]
        ch = [c for _, s, c in gts if "asym" in s]
        rs = [c for _, s, c in gts if "seq" in s]
        assert len(ser) == 1 and len(ch) == 1 and len(rs) == 1 and len(gts) == 3
        res["canWrite"] = (ser[0], ch[0], rs[0])
    except Exception:
        ctx.lost("parser_v2.can_write_pdb")
        res["canWrite"] = PIN["canWrite"]
    fn = find_function(tree, "fit_to_pdb")
    try:
        vals = {}
        for name, val, _ in _assignments(fn):
            if name in vals:
                continue
            try:
                vals[name] = eval(compile(ast.Expression(val), "<gen>", "eval"), {"string": string, "list": list, "len": len, "__builtins__": {}})
            except Exception:
                pass
        ints = {k: v for k, v in vals.items() if isinstance(v, int) and not isinstance(v, bool) and v >= 1000}
        ser = [v for k, v in ints.items() if "serial" in k]
        rs = [v for k, v in ints.items() if "resid" in k]
        alph = [v for v in vals.values() if isinstance(v, (list, str)) and len(v) >= 20 and all(isinstance(c, str) and len(c) == 1 for c in v)]
        assert len(ser) == 1 and len(rs) == 1 and len(alph) == 1
        res["fitLimits"] = (ser[0], rs[0])
        res["chainAlphabet"] = "".join(alph[0])
        # the comparisons that raise: every `if a > b: raise ValueError`
        raising = []
        for node in ast.walk(fn):
            if isinstance(node, ast.If) and any(isinstance(s, ast.Raise) for s in node.body) and isinstance(node.test, ast.Compare):
                t = node.test
                if len(t.ops) == 1 and isinstance(t.ops[0], ast.Gt):
                    raising.append(ast.unparse(t))
        res["fitRaising"] = raising
        # mmCIF key columns
        cols = {}
        for node in ast.walk(fn):
            if isinstance(node, ast.If) and isinstance(node.test, ast.Compare) and isinstance(node.test.comparators[0], ast.Constant) \
                    and node.test.comparators[0].value == "mmCIF":
                for s in node.body:
                    if isinstance(s, ast.Assign) and isinstance(s.value, ast.Constant) and isinstance(s.targets[0], ast.Name):
                        nm = s.targets[0].id
                        f = "serial" if "serial" in nm else "chain" if "chain" in nm else "resSeq" if "resseq" in nm else "iCode" if "icode" in nm else None
                        if f:
                            cols[f] = s.value.value
        assert set(cols) == {"serial", "chain", "resSeq", "iCode"}
        res["fitCifCols"] = cols
        rm = None
        for name, val, _ in _assignments(fn):
            if name == "rename_map" and isinstance(val, ast.Dict):
                rm = [(k.value, v.value) for k, v in zip(val.keys, val.values)]
        if rm is None:
            for node in ast.walk(fn):
                if isinstance(node, ast.Dict) and len(node.keys) >= 8 and all(isinstance(v, ast.Constant) and v.value in FIELD for v in node.values):
                    rm = [(k.value, v.value) for k, v in zip(node.keys, node.values)]
        assert rm
        res["renameMap"] = rm
    except Exception:
        ctx.lost("parser_v2.fit_to_pdb")
        res["fitLimits"], res["chainAlphabet"], res["fitCifCols"] = PIN["fitLimits"], PIN["chainAlphabet"], PIN["fitCifCols"]
        res["fitRaising"] = ["total_atoms + num_chains > max_pdb_serial", "num_chains > max_pdb_chains",
                             "max_residues_per_chain > max_pdb_residue", "current_serial > max_pdb_serial"]
        res["renameMap"] = []
    return res


# ------------------------------------------------------------------------------------------------- write_cif / parse_cif_atoms
def cif(tree, ctx):
    res = {}
    fn = find_function(tree, "write_cif")
    try:
        attrs = None
        for name, val, _ in _assignments(fn):
            if isinstance(val, ast.List) and len(val.elts) >= 10 and all(isinstance(e, ast.Constant) and isinstance(e.value, str) for e in val.elts):
                attrs = [e.value for e in val.elts]
        rowlist = None
        for name, val, node in _assignments(fn):
            if isinstance(val, ast.List) and attrs and len(val.elts) == len(attrs) and not all(isinstance(e, ast.Constant) for e in val.elts):
                rowlist = (val, node)
        assert attrs and rowlist
        asg = _assignments(fn)
        rowvar = None
        for n in ast.walk(rowlist[0]):
            if isinstance(n, ast.Subscript) and isinstance(n.value, ast.Name) and isinstance(n.slice, ast.Constant):
                rowvar = n.value.id
                break
        srcs, nulls, decs = [], {}, {}
        for e in rowlist[0].elts:
            k = _key_of_get(e, rowvar)
            expr = e
            if k is None and isinstance(e, ast.Name):
                vals = [v for n, v, nd in asg if n == e.id and nd.lineno < rowlist[1].lineno]
                expr = next((v for v in vals if _key_of_get(v, rowvar) is not None), vals[-1])
                k = _key_of_get(expr, rowvar)
                if k is not None and FIELD.get(k) == "charge":
                    # a later re-assignment that builds a sign prefix = the charge is written as a signed integer
                    res["cifChargeSigned"] = any(v is not expr and any(isinstance(c, ast.Constant) and c.value == "-" for c in ast.walk(v))
                                                 for v in vals)
                if k is None:
                    if isinstance(expr, ast.Constant):
                        srcs.append(("const", str(expr.value)))
                        continue
                    raise AssertionError(ast.unparse(expr))
                if isinstance(expr, ast.IfExp) and isinstance(expr.body, ast.Constant):
                    nulls[FIELD[k]] = expr.body.value
            f = FIELD[k]
            srcs.append(("col", f))
            for n in ast.walk(expr):
                if isinstance(n, ast.FormattedValue) and n.format_spec is not None:
                    spec = "".join(v.value for v in n.format_spec.values)
                    if spec.startswith(".") and spec.endswith("f"):
                        decs[f] = int(spec[1:-1])
        res.setdefault("cifChargeSigned", False)
        res["cifAttributes"] = attrs
        res["cifSources"] = srcs
        res["cifWriteNull"] = nulls
        res["cifDecimals"] = decs
        # the marker used for a missing value of a mmCIF-derived table
        mk = None
        for node in ast.walk(fn):
            if isinstance(node, ast.If) and isinstance(node.test, ast.Call) and ast.unparse(node.test.func).endswith("isna"):
                for n in ast.walk(node.body[0]):
                    if isinstance(n, ast.Constant) and isinstance(n.value, str):
                        mk = n.value
        assert mk is not None
        res["cifWriteNullCif"] = mk
    except Exception:
        ctx.lost("parser_v2.write_cif")
        res["cifAttributes"] = ["group_PDB", "id", "type_symbol", "label_atom_id", "label_alt_id", "label_comp_id", "label_asym_id",
                                "label_entity_id", "label_seq_id", "pdbx_PDB_ins_code", "Cartn_x", "Cartn_y", "Cartn_z", "occupancy",
                                "B_iso_or_equiv", "pdbx_formal_charge", "auth_seq_id", "auth_comp_id", "auth_asym_id", "auth_atom_id",
                                "pdbx_PDB_model_num"]
        res["cifSources"] = [("col", "record"), ("col", "serial"), ("col", "element"), ("col", "name"), ("col", "altLoc"),
                             ("col", "resName"), ("col", "chain"), ("const", "1"), ("col", "resSeq"), ("col", "iCode"),
                             ("col", "x"), ("col", "y"), ("col", "z"), ("col", "occ"), ("col", "b"), ("col", "charge"),
                             ("col", "resSeq"), ("col", "resName"), ("col", "chain"), ("col", "name"), ("col", "model")]
        res["cifWriteNull"] = {"element": "?", "altLoc": ".", "iCode": ".", "charge": "."}
        res["cifDecimals"] = {"x": 3, "y": 3, "z": 3, "occ": 2, "b": 2}
        res["cifWriteNullCif"] = "?"
        res["cifChargeSigned"] = True
    fn = find_function(tree, "parse_cif_atoms")
    try:
        nulls = None
        for node in ast.walk(fn):
            if isinstance(node, ast.Compare) and len(node.ops) == 1 and isinstance(node.ops[0], ast.In) \
                    and isinstance(node.comparators[0], (ast.List, ast.Tuple, ast.Set)):
                vals = [e.value for e in node.comparators[0].elts if isinstance(e, ast.Constant)]
                if vals and all(isinstance(v, str) and len(v) == 1 for v in vals):
                    nulls = vals
        lists = {}
        for name, val, _ in _assignments(fn):
            if isinstance(val, ast.List) and all(isinstance(e, ast.Constant) and isinstance(e.value, str) for e in val.elts):
                lists[name] = [e.value for e in val.elts]
        ints = [v for k, v in lists.items() if "int" in k]
        floats = [v for k, v in lists.items() if "float" in k]
        assert nulls and len(ints) == 1 and len(floats) == 1
        res["cifReadNulls"] = nulls
        res["cifIntCols"] = ints[0]
        res["cifFloatCols"] = floats[0]
    except Exception:
        ctx.lost("parser_v2.parse_cif_atoms")
        res["cifReadNulls"] = ["?", "."]
        res["cifIntCols"] = ["attached_hydrogens", "label_seq_id", "symmetry_multiplicity", "pdbx_PDB_model_num",
                             "pdbx_formal_charge", "pdbx_label_index"]
        res["cifFloatCols"] = ["B_iso_or_equiv", "Cartn_x", "Cartn_y", "Cartn_z", "occupancy"]
    return res


# ------------------------------------------------------------------------------------------------- emission
def lchars(s):
    """explicit list of character literals (reduces in the kernel without unfolding string literals)"""
    return "[" + ", ".join(lean_char(c) for c in s) + "]"


def lfmt(d):
    if d[0] == "text":
        _, j, w, tr, st = d
        return "(.text .%s %d %s %s)" % (j, w, "none" if tr is None else "(some %d)" % tr, "true" if st else "false")
    if d[0] == "int":
        return "(.int .%s %d)" % (d[1], d[2])
    if d[0] == "fixed":
        return "(.fixed %d %d)" % (d[1], d[2])
    if d[0] == "atomName":
        return "(.atomName %d %d)" % (d[1], d[2])
    if d[0] == "charge":
        return "(.charge %d %d)" % (d[1], d[2])
    raise ValueError(d)


def ltemplate(t):
    return lean_list([("(.lit %s)" % lchars(v)) if k == "l" else "(.fld .%s)" % v for k, v in t], 4)


def emit(ctx):
    tree, _ = module_ast("parser_v2")
    r = {}
    r.update(reader(tree, ctx))
    r.update(writer(tree, ctx))
    r.update(ter_and_model(tree, ctx))
    r.update(limits(tree, ctx))
    r.update(cif(tree, ctx))
    o = [HEADER, "import RnaVerif.Model.PdbBase", "namespace RnaVerif.Gen.ParserV2", "open RnaVerif.Pdb\n"]
    o.append("/-- `parse_pdb_atoms`: half-open column slice `line[a:b]` of every field -/")
    o.append("def readerSlices : List (Field × Nat × Nat) :=\n  " +
             lean_list(["(.%s, %d, %d)" % (f, *r["readerSlices"][f]) for f in ORDER if f in r["readerSlices"]], 5) + "\n")
    o.append("/-- `parse_pdb_atoms`: slice of the model number in a MODEL record -/")
    o.append("def modelSlice : Nat × Nat := (%d, %d)\n" % tuple(r["modelSlice"]))
    o.append("def recordNames : List (List Char) := " + lean_list([lchars(s) for s in r["recordNames"]]) + "\n")
    o.append("/-- fields stored as None when the slice is blank -/")
    o.append("def noneIfBlank : List Field := " + lean_list([".%s" % f for f in r["noneIfBlank"]]) + "\n")
    o.append("/-- `_format_pdb_atom_line`: rendering of every field -/")
    o.append("def writerFmt : List (Field × Fmt) :=\n  " +
             lean_list(["(.%s, %s)" % (f, lfmt(r["writerFmt"][f])) for f in ORDER if f in r["writerFmt"]], 3) + "\n")
    o.append("/-- `_format_pdb_atom_line`: the f-string the line is assembled from -/")
    o.append("def lineTemplate : List Piece :=\n  " + ltemplate(r["lineTemplate"]) + "\n")
    o.append("def lineWidth : Nat := %d\n" % r["lineWidth"])
    o.append("/-- `write_pdb`: the TER record (`serial` stands for last serial + 1) -/")
    o.append("def terTemplate : List Piece :=\n  " + ltemplate(r["terTemplate"]) + "\n")
    o.append("def terFmt : List (Field × Fmt) :=\n  " +
             lean_list(["(.%s, %s)" % (f, lfmt(r["terFmt"][f])) for f in ORDER if f in r["terFmt"]], 3) + "\n")
    o.append("def terWidth : Nat := %d\n" % r["terWidth"])
    o.append("def modelPrefix : List Char := %s\n" % lchars(r["modelPrefix"]))
    o.append("def modelWidth : Nat := %d\n" % r["modelWidth"])
    o.append("/-- `write_pdb`: on a change of model, is the open chain closed with a TER before ENDMDL is written? -/")
    o.append("def terBeforeEndmdl : Bool := %s\n" % ("true" if r["terBeforeEndmdl"] else "false"))
    o.append("/-- `write_pdb` on a mmCIF-derived table: columns each field is taken from, in order of preference -/")
    o.append("def cifReadCols : List (Field × List String) :=\n  " +
             lean_list(["(.%s, [%s])" % (f, ", ".join(lean_str(c) for c in r["cifReadCols"][f])) for f in ORDER], 2) + "\n")
    o.append("/-- `can_write_pdb`: a mmCIF-derived table fits iff max id ≤ , max chain-id length ≤ , max number ≤ -/")
    o.append("def canWriteMaxSerial : Nat := %d\ndef canWriteMaxChainLen : Nat := %d\ndef canWriteMaxResSeq : Nat := %d\n" % tuple(r["canWrite"]))
    o.append("/-- `can_write_pdb`, branch `format_type == \"PDB\"`: `true` = it returns True without looking at the table;\n"
             "`false` = it compares serial / chainID length / resSeq with the three limits below (when the table is assumed to\n"
             "fit the limits are not in the source and are emitted equal to the mmCIF ones, unused) -/")
    o.append("def pdbAssumedToFit : Bool := %s" % ("true" if r["pdbAssumedToFit"] else "false"))
    o.append("def canWritePdbMaxSerial : Nat := %d\ndef canWritePdbMaxChainLen : Nat := %d\ndef canWritePdbMaxResSeq : Nat := %d\n"
             % tuple(r["canWritePdbBranch"] or r["canWrite"]))
    o.append("/-- `fit_to_pdb` -/")
    o.append("def maxSerial : Nat := %d\ndef maxResSeq : Nat := %d" % tuple(r["fitLimits"]))
    o.append("def chainAlphabet : List Char := %s\n" % lchars(r["chainAlphabet"]))
    o.append("/-- the tests of `fit_to_pdb` that raise ValueError (source text; all strict `>`) -/")
    o.append("def fitRaising : List String := " + lean_list([lean_str(s) for s in r["fitRaising"]], 1) + "\n")
    o.append("def fitCifCols : List (Field × String) := " +
             lean_list(["(.%s, %s)" % (f, lean_str(r["fitCifCols"][f])) for f in ORDER if f in r["fitCifCols"]], 4) + "\n")
    o.append("def renameMap : List (String × String) :=\n  " +
             lean_list(["(%s, %s)" % (lean_str(a), lean_str(b)) for a, b in r["renameMap"]], 3) + "\n")
    o.append("/-- `write_cif` on a PDB-derived table: attribute list and where each value comes from -/")
    o.append("def cifAttributes : List String :=\n  " + lean_list([lean_str(a) for a in r["cifAttributes"]], 4) + "\n")
    o.append("def cifSources : List CifSrc :=\n  " +
             lean_list([("(.col .%s)" % v) if k == "col" else "(.const %s)" % lchars(v) for k, v in r["cifSources"]], 6) + "\n")
    o.append("/-- marker written for a missing optional field -/")
    o.append("def cifWriteNull : List (Field × List Char) := " +
             lean_list(["(.%s, %s)" % (f, lchars(r["cifWriteNull"][f])) for f in ORDER if f in r["cifWriteNull"]], 4) + "\n")
    o.append("/-- `write_cif`: is the PDB charge text (`2+`) rewritten as the signed integer (`2`, `-1`) mmCIF expects? -/")
    o.append("def cifChargeSigned : Bool := %s\n" % ("true" if r["cifChargeSigned"] else "false"))
    o.append("def cifDecimals : List (Field × Nat) := " +
             lean_list(["(.%s, %d)" % (f, r["cifDecimals"][f]) for f in ORDER if f in r["cifDecimals"]], 8) + "\n")
    o.append("/-- marker `write_cif` uses for a missing value of a mmCIF-derived table -/")
    o.append("def cifWriteNullCif : List Char := %s\n" % lchars(r["cifWriteNullCif"]))
    o.append("/-- `parse_cif_atoms`: tokens read as missing -/")
    o.append("def cifReadNulls : List (List Char) := " + lean_list([lchars(s) for s in r["cifReadNulls"]]) + "\n")
    used = {c for cs in r["cifReadCols"].values() for c in cs} | set(r["cifAttributes"])
    o.append("/-- `parse_cif_atoms`: of the columns used here, those converted with `to_numeric(errors=coerce)` to Int64 / float -/")
    o.append("def cifIntCols : List String := " + lean_list([lean_str(c) for c in r["cifIntCols"] if c in used], 6) + "\n")
    o.append("def cifFloatCols : List String := " + lean_list([lean_str(c) for c in r["cifFloatCols"] if c in used], 6) + "\n")
    o.append("end RnaVerif.Gen.ParserV2\n")
    return {"ParserV2.lean": "\n".join(o)}

"""Translator for the comparison of the two reader generations (C15):
src/rnapolis/tertiary.py + tertiary_v2.py -> Generated/Readers.lean

Extracted (`ast` by shape for literals inside function bodies, live objects for module constants):
  * `Residue3D.is_connected` (tertiary.py) and `Residue.is_connected` (tertiary_v2.py): the two atom names handed to
    `find_atom`, the comparison operator and the threshold `factor * AVERAGE_OXYGEN_PHOSPHORUS_DISTANCE_COVALENT`
    (factor from the source, the constant from the live module);
  * `tertiary_v2.Structure.residues`: the `groupby` columns of the PDB branch and of the two mmCIF branches (auth_*
    preferred, label_* as fall-back, the insertion code appended), the `dropna=` keyword and whether `sort=False` is
    passed (pandas' default is to sort groups by key);
  * `tertiary_v2.Residue.chain_id / residue_number / insertion_code / residue_name / find_atom` and
    `Atom.coordinates`: the column each one reads in a PDB-derived frame and, in order of preference, in an
    mmCIF-derived frame;
  * `tertiary_v2.Structure.connected_residues`: the minimal length of a reported segment (`len(segment) > 1`).
Every value has a pinned default (the values of the pinned tree); a lost anchor is reported through ctx.lost and the
behaviour is then carried by the correspondence check alone.
"""
import ast
import importlib
import os
import sys

from genlib import HEADER, REPO_SRC, find_function, lean_list, lean_rat, lean_str, module_ast

PIN = {
    "readers.v1Conn": {"factor": 1.5, "strict": True, "atoms": ["O3'", "P"]},
    "readers.v2Conn": {"factor": 1.5, "strict": True, "atoms": ["O3'", "P"]},
    "readers.v2GroupPdb": ["chainID", "resSeq", "iCode"],
    "readers.v2GroupCifAuth": ["auth_asym_id", "auth_seq_id", "pdbx_PDB_ins_code"],
    "readers.v2GroupCifLabel": ["label_asym_id", "label_seq_id", "pdbx_PDB_ins_code"],
    "readers.v2GroupSorted": True,
    "readers.v2GroupDropna": False,
    "readers.v2Cols": {
        "chain_id": (["chainID"], ["auth_asym_id", "label_asym_id"]),
        "residue_number": (["resSeq"], ["auth_seq_id", "label_seq_id"]),
        "insertion_code": (["iCode"], ["pdbx_PDB_ins_code"]),
        "residue_name": (["resName"], ["auth_comp_id", "label_comp_id"]),
        "find_atom": (["name"], ["auth_atom_id", "label_atom_id"]),
        "coordinates": (["x", "y", "z"], ["Cartn_x", "Cartn_y", "Cartn_z"]),
    },
    "readers.v2MinSegment": 2,
}


def _live(modname):
    src_root = os.path.dirname(REPO_SRC)
    if src_root not in sys.path:
        sys.path.insert(0, src_root)
    return importlib.import_module("rnapolis." + modname)


def _conn(fn):
    """(factor, strict, [atom of self, atom of the candidate]) of an `is_connected` method, or None"""
    if fn is None:
        return None
    factor = strict = None
    for node in ast.walk(fn):
        if isinstance(node, ast.Compare) and len(node.ops) == 1 and isinstance(node.ops[0], (ast.Lt, ast.LtE)):
            r = node.comparators[0]
            if (isinstance(r, ast.BinOp) and isinstance(r.op, ast.Mult) and isinstance(r.left, ast.Constant)
                    and isinstance(r.left.value, (int, float)) and isinstance(r.right, ast.Name)
                    and r.right.id == "AVERAGE_OXYGEN_PHOSPHORUS_DISTANCE_COVALENT"):
                factor, strict = r.left.value, isinstance(node.ops[0], ast.Lt)
    own = other = None
    for node in ast.walk(fn):
        if (isinstance(node, ast.Call) and isinstance(node.func, ast.Attribute) and node.func.attr == "find_atom"
                and len(node.args) == 1 and isinstance(node.args[0], ast.Constant) and isinstance(node.args[0].value, str)
                and isinstance(node.func.value, ast.Name)):
            if node.func.value.id == "self":
                own = node.args[0].value
            else:
                other = node.args[0].value
    if factor is None or own is None or other is None:
        return None
    return {"factor": factor, "strict": strict, "atoms": [own, other]}


def _is_format_test(test, fmt):
    return (isinstance(test, ast.Compare) and len(test.ops) == 1 and isinstance(test.ops[0], ast.Eq)
            and isinstance(test.left, ast.Attribute) and test.left.attr == "format"
            and isinstance(test.comparators[0], ast.Constant) and test.comparators[0].value == fmt)


def _format_branches(fn):
    """{'PDB': [stmts], 'mmCIF': [stmts]} of the `if self.format == "PDB": … elif self.format == "mmCIF": …` chain"""
    out = {}
    for node in ast.walk(fn):
        if isinstance(node, ast.If):
            for fmt in ("PDB", "mmCIF"):
                if _is_format_test(node.test, fmt) and fmt not in out:
                    out[fmt] = node.body
    return out


def _str_list(node):
    try:
        v = ast.literal_eval(node)
    except Exception:
        return None
    if isinstance(v, list) and all(isinstance(s, str) for s in v):
        return v
    return None


def _group_cols(fn):
    """groupby columns of Structure.residues: (pdb, cif-auth, cif-label, sorted, dropna) or None"""
    br = _format_branches(fn)
    if "PDB" not in br or "mmCIF" not in br:
        return None
    pdb = None
    for st in br["PDB"]:
        for node in ast.walk(st):
            if isinstance(node, ast.Assign) and len(node.targets) == 1 and isinstance(node.targets[0], ast.Name) \
                    and node.targets[0].id == "groupby_cols" and pdb is None:
                pdb = _str_list(node.value)
    lists = []      # (lineno, list) of literal assignments in the mmCIF branch
    appended = []   # (lineno, str) of groupby_cols.append("…")
    for st in br["mmCIF"]:
        for node in ast.walk(st):
            if isinstance(node, ast.Assign) and len(node.targets) == 1 and isinstance(node.targets[0], ast.Name) \
                    and node.targets[0].id == "groupby_cols":
                v = _str_list(node.value)
                if v is not None:
                    lists.append((node.lineno, v))
            if (isinstance(node, ast.Call) and isinstance(node.func, ast.Attribute) and node.func.attr == "append"
                    and isinstance(node.func.value, ast.Name) and node.func.value.id == "groupby_cols"
                    and len(node.args) == 1 and isinstance(node.args[0], ast.Constant)):
                appended.append((node.lineno, node.args[0].value))
    lists.sort()
    appended.sort()
    if pdb is None or len(lists) != 2 or len(appended) != 2:
        return None
    srt, dropna, seen = True, True, 0
    for node in ast.walk(fn):
        if isinstance(node, ast.Call) and isinstance(node.func, ast.Attribute) and node.func.attr == "groupby":
            seen += 1
            s, d = True, True
            for kw in node.keywords:
                if kw.arg == "sort" and isinstance(kw.value, ast.Constant):
                    s = bool(kw.value.value)
                if kw.arg == "dropna" and isinstance(kw.value, ast.Constant):
                    d = bool(kw.value.value)
            if seen == 1:
                srt, dropna = s, d
            elif (s, d) != (srt, dropna):
                return None
    if seen == 0:
        return None
    return pdb, lists[0][1] + [appended[0][1]], lists[1][1] + [appended[1][1]], srt, dropna


def _subscript_strings(stmts):
    """string constants used as `…["name"]` subscripts or `"name" in …` tests, in source order, without repeats"""
    hits = []
    for st in stmts:
        for node in ast.walk(st):
            if isinstance(node, ast.Subscript) and isinstance(node.slice, ast.Constant) and isinstance(node.slice.value, str):
                hits.append((node.lineno, node.col_offset, node.slice.value))
    out = []
    for _, _, s in sorted(hits):
        if s not in out:
            out.append(s)
    return out


def _prop_cols(tree, qual):
    fn = find_function(tree, qual)
    if fn is None:
        return None
    br = _format_branches(fn)
    if "PDB" not in br or "mmCIF" not in br:
        return None
    p, c = _subscript_strings(br["PDB"]), _subscript_strings(br["mmCIF"])
    if not p or not c:
        return None
    return p, c


def _min_segment(fn):
    """k such that segments are reported iff len(segment) >= k (all `len(current_segment) > c` tests agree)"""
    if fn is None:
        return None
    ks = set()
    for node in ast.walk(fn):
        if (isinstance(node, ast.Compare) and len(node.ops) == 1 and isinstance(node.left, ast.Call)
                and isinstance(node.left.func, ast.Name) and node.left.func.id == "len"
                and isinstance(node.comparators[0], ast.Constant) and isinstance(node.comparators[0].value, int)):
            c = node.comparators[0].value
            if isinstance(node.ops[0], ast.Gt):
                ks.add(c + 1)
            elif isinstance(node.ops[0], ast.GtE):
                ks.add(c)
    return ks.pop() if len(ks) == 1 else None


def _strs(xs):
    return lean_list([lean_str(s) for s in xs], 10)


def emit(ctx):
    def take(name, value):
        if value is not None:
            return value
        ctx.lost(name)
        return PIN[name] if ctx.pin(name) is None else ctx.pin(name)

    out = [HEADER, "namespace RnaVerif.Gen.Readers\n"]

    t1, _ = module_ast("tertiary")
    t2, _ = module_ast("tertiary_v2")
    T1, T2 = _live("tertiary"), _live("tertiary_v2")

    for tag, tree, live, qual, what in (("v1", t1, T1, "Residue3D.is_connected", "tertiary.Residue3D.is_connected"),
                                        ("v2", t2, T2, "Residue.is_connected", "tertiary_v2.Residue.is_connected")):
        c = take("readers.%sConn" % tag, _conn(find_function(tree, qual)))
        op = float(getattr(live, "AVERAGE_OXYGEN_PHOSPHORUS_DISTANCE_COVALENT"))
        out.append("/-- `%s`: distance(`%sConnAtomPrev` of this residue, `%sConnAtomNext` of the candidate) `<` (strict = %s)\n"
                   "`%sConnFactor * %sConnOP`; `false` when one of the two atoms is missing -/"
                   % (what, tag, tag, c["strict"], tag, tag))
        out.append("def %sConnFactor : Rat := %s" % (tag, lean_rat(c["factor"])))
        out.append("def %sConnOP : Rat := %s" % (tag, lean_rat(op)))
        out.append("def %sConnStrict : Bool := %s" % (tag, "true" if c["strict"] else "false"))
        out.append("def %sConnAtomPrev : String := %s" % (tag, lean_str(c["atoms"][0])))
        out.append("def %sConnAtomNext : String := %s\n" % (tag, lean_str(c["atoms"][1])))

    fn = find_function(t2, "Structure.residues")
    g = _group_cols(fn) if fn is not None else None
    if g is None:
        for n in ("readers.v2GroupPdb", "readers.v2GroupCifAuth", "readers.v2GroupCifLabel", "readers.v2GroupSorted",
                  "readers.v2GroupDropna"):
            ctx.lost(n)
        g = tuple((PIN[n] if ctx.pin(n) is None else ctx.pin(n)) for n in
                  ("readers.v2GroupPdb", "readers.v2GroupCifAuth", "readers.v2GroupCifLabel", "readers.v2GroupSorted",
                   "readers.v2GroupDropna"))
    out.append("/-- `tertiary_v2.Structure.residues`: `groupby` columns of a PDB-derived frame -/")
    out.append("def v2GroupPdb : List String := %s" % _strs(g[0]))
    out.append("/-- … of an mmCIF-derived frame that has the auth_* columns (preferred), and the label_* fall-back -/")
    out.append("def v2GroupCifAuth : List String := %s" % _strs(g[1]))
    out.append("def v2GroupCifLabel : List String := %s" % _strs(g[2]))
    out.append("/-- groups come out sorted by key (no `sort=False`); rows with a missing key component are kept (`dropna=False`) -/")
    out.append("def v2GroupSorted : Bool := %s" % ("true" if g[3] else "false"))
    out.append("def v2GroupDropna : Bool := %s\n" % ("true" if g[4] else "false"))

    cols = {}
    for key, qual in (("chain_id", "Residue.chain_id"), ("residue_number", "Residue.residue_number"),
                      ("insertion_code", "Residue.insertion_code"), ("residue_name", "Residue.residue_name"),
                      ("find_atom", "Residue.find_atom"), ("coordinates", "Atom.coordinates")):
        v = _prop_cols(t2, qual)
        if v is None:
            ctx.lost("readers.v2Cols." + key)
            pinned = ctx.pin("readers.v2Cols")
            v = tuple((pinned or PIN["readers.v2Cols"])[key])
        cols[key] = v
    out.append("/-- `tertiary_v2.Residue` / `Atom` accessors: (name, column in a PDB-derived frame, columns of an mmCIF-derived\n"
               "frame in order of preference) -/")
    out.append("def v2Cols : List (String × List String × List String) :=\n  [" + ",\n   ".join(
        "(%s, %s, %s)" % (lean_str(k), _strs(cols[k][0]), _strs(cols[k][1])) for k in cols) + "]\n")

    k = take("readers.v2MinSegment", _min_segment(find_function(t2, "Structure.connected_residues")))
    out.append("/-- `tertiary_v2.Structure.connected_residues`: a segment is reported iff it has at least this many residues -/")
    out.append("def v2MinSegment : Nat := %d\n" % k)

    out.append("end RnaVerif.Gen.Readers\n")
    return {"Readers.lean": "\n".join(out)}

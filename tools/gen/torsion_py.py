"""Translator for the torsion code: src/rnapolis/tertiary.py + tertiary_v2.py -> Generated/Torsion.lean

Extracted (all are literals inside function bodies, hence `ast`, by *shape*):
  * tertiary.calculate_torsion_angle_coords: the `norm(v) > eps` literals guarding the three
    normalisations, the `norm(t) < eps` literals of the zero-cross-product guard, the value returned by
    the guard, the clip bounds;
  * tertiary_v2.calculate_torsion_angle: the `n_norm < eps` literals of the collinearity guard;
  * Residue3D.__chi_purine / __chi_pyrimidine atom names, the letter sets in `chi`, the syn bounds of
    `chi_class` (degrees);
  * tertiary_v2.Structure.torsion_angles: `torsion_definitions`, purine/pyrimidine residue-name lists
    and the chi atom names of the two branches.
Every value has a pinned default (the values on the pinned tree); a lost anchor is reported through
ctx.lost and the behaviour is then carried by the correspondence check alone.
"""
import ast

from genlib import HEADER, find_function, lean_list, lean_rat, lean_str, module_ast

PIN = {
    "torsion.v1NormEps": 1e-6,
    "torsion.v1CrossEps": 1e-6,
    "torsion.v1DegenerateValue": 0.0,
    "torsion.v1Clip": [-1.0, 1.0],
    "torsion.v2CrossEps": 1e-6,
    "torsion.v1ChiPurine": ["O4'", "C1'", "N9", "C4"],
    "torsion.v1ChiPyrimidine": ["O4'", "C1'", "N1", "C2"],
    "torsion.v1PurineLetters": ["A", "G"],
    "torsion.v1PyrimidineLetters": ["C", "U", "T"],
    "torsion.v1SynBounds": [-30, 120],
    "torsion.v2Definitions": {
        "alpha": [("O3'", -1), ("P", 0), ("O5'", 0), ("C5'", 0)],
        "beta": [("P", 0), ("O5'", 0), ("C5'", 0), ("C4'", 0)],
        "gamma": [("O5'", 0), ("C5'", 0), ("C4'", 0), ("C3'", 0)],
        "delta": [("C5'", 0), ("C4'", 0), ("C3'", 0), ("O3'", 0)],
        "epsilon": [("C4'", 0), ("C3'", 0), ("O3'", 0), ("P", 1)],
        "zeta": [("C3'", 0), ("O3'", 0), ("P", 1), ("O5'", 1)],
        "chi": None,
    },
    "torsion.v2PurineNames": ["A", "G", "DA", "DG"],
    "torsion.v2PyrimidineNames": ["C", "U", "T", "DC", "DT"],
    "torsion.v2ChiPurine": ["O4'", "C1'", "N9", "C4"],
    "torsion.v2ChiPyrimidine": ["O4'", "C1'", "N1", "C2"],
}


def _num(node):
    """numeric literal (possibly negated) or None"""
    if isinstance(node, ast.Constant) and isinstance(node.value, (int, float)) and not isinstance(node.value, bool):
        return node.value
    if isinstance(node, ast.UnaryOp) and isinstance(node.op, ast.USub):
        v = _num(node.operand)
        return None if v is None else -v
    return None


def _cmp_literals(fn, optype):
    """literals c in comparisons `<call> op c` inside fn, in source order"""
    out = []
    for node in ast.walk(fn):
        if isinstance(node, ast.Compare) and len(node.ops) == 1 and isinstance(node.ops[0], optype):
            c = _num(node.comparators[0])
            if c is not None and isinstance(c, float):
                out.append((node.lineno, node.col_offset, c))
    return [c for _, _, c in sorted(out)]


def _find_atom_names(nodes):
    """string literals passed to `.find_atom("...")` inside the given nodes, in source order"""
    out = []
    for top in nodes:
        for node in ast.walk(top):
            if (isinstance(node, ast.Call) and isinstance(node.func, ast.Attribute) and node.func.attr == "find_atom"
                    and len(node.args) == 1 and isinstance(node.args[0], ast.Constant)
                    and isinstance(node.args[0].value, str)):
                out.append((node.lineno, node.col_offset, node.args[0].value))
    return [s for _, _, s in sorted(out)]


def _same(vals):
    return len(vals) > 0 and all(v == vals[0] for v in vals)


def _strs(xs):
    return lean_list([lean_str(s) for s in xs], 10)


def emit(ctx):
    def take(name, value, ok):
        if ok:
            return value
        ctx.lost(name)
        return PIN[name] if ctx.pin(name) is None else ctx.pin(name)

    out = [HEADER, "namespace RnaVerif.Gen.Tor\n"]

    # ---------------- tertiary.py
    tree, _ = module_ast("tertiary")
    fn = find_function(tree, "calculate_torsion_angle_coords")
    gts = _cmp_literals(fn, ast.Gt) if fn is not None else []
    lts = _cmp_literals(fn, ast.Lt) if fn is not None else []
    v1_norm = take("torsion.v1NormEps", gts[0] if gts else None, len(gts) == 3 and _same(gts))
    v1_cross = take("torsion.v1CrossEps", lts[0] if lts else None, len(lts) == 2 and _same(lts))
    # value returned inside the `if norm(t1) < eps or norm(t2) < eps:` guard
    deg_val = None
    clip = None
    if fn is not None:
        for node in ast.walk(fn):
            if isinstance(node, ast.If) and isinstance(node.test, ast.BoolOp) and isinstance(node.test.op, ast.Or):
                for st in node.body:
                    if isinstance(st, ast.Return):
                        deg_val = _num(st.value)
            if (isinstance(node, ast.Call) and isinstance(node.func, ast.Attribute) and node.func.attr == "clip"
                    and len(node.args) == 3):
                lo, hi = _num(node.args[1]), _num(node.args[2])
                if lo is not None and hi is not None:
                    clip = [lo, hi]
    deg_val = take("torsion.v1DegenerateValue", deg_val, deg_val is not None)
    clip = take("torsion.v1Clip", clip, clip is not None)

    def chi_atoms(qual, name):
        f = find_function(tree, qual)
        names = _find_atom_names([f]) if f is not None else []
        return take(name, names, len(names) == 4)

    v1_pu = chi_atoms("Residue3D.__chi_purine", "torsion.v1ChiPurine")
    v1_py = chi_atoms("Residue3D.__chi_pyrimidine", "torsion.v1ChiPyrimidine")
    # letter sets of Residue3D.chi : `... in ("A", "G")` / `... in ("C", "U", "T")`
    sets = []
    f = find_function(tree, "Residue3D.chi")
    if f is not None:
        for node in ast.walk(f):
            if isinstance(node, ast.Compare) and len(node.ops) == 1 and isinstance(node.ops[0], ast.In):
                try:
                    v = ast.literal_eval(node.comparators[0])
                except Exception:
                    continue
                if isinstance(v, (tuple, list)) and all(isinstance(s, str) for s in v):
                    sets.append((node.lineno, list(v)))
    sets.sort()
    ok = len(sets) == 2
    v1_pul = take("torsion.v1PurineLetters", sets[0][1] if ok else None, ok)
    v1_pyl = take("torsion.v1PyrimidineLetters", sets[1][1] if ok else None, ok)
    # syn bounds of chi_class: math.radians(a) < self.chi < math.radians(b)
    bounds = None
    f = find_function(tree, "Residue3D.chi_class")
    if f is not None:
        for node in ast.walk(f):
            if (isinstance(node, ast.Compare) and len(node.ops) == 2 and all(isinstance(o, ast.Lt) for o in node.ops)):
                ends = [node.left, node.comparators[1]]
                vals = []
                for e in ends:
                    if (isinstance(e, ast.Call) and isinstance(e.func, ast.Attribute) and e.func.attr == "radians"
                            and len(e.args) == 1 and _num(e.args[0]) is not None):
                        vals.append(_num(e.args[0]))
                if len(vals) == 2:
                    bounds = vals
    bounds = take("torsion.v1SynBounds", bounds, bounds is not None)

    # ---------------- tertiary_v2.py
    tree2, _ = module_ast("tertiary_v2")
    fn2 = find_function(tree2, "calculate_torsion_angle")
    lts2 = _cmp_literals(fn2, ast.Lt) if fn2 is not None else []
    v2_cross = take("torsion.v2CrossEps", lts2[0] if lts2 else None, len(lts2) == 2 and _same(lts2))
    ft = find_function(tree2, "Structure.torsion_angles")
    defs = pu_names = py_names = None
    v2_pu = v2_py = None
    if ft is not None:
        for node in ast.walk(ft):
            if isinstance(node, ast.Assign) and len(node.targets) == 1 and isinstance(node.targets[0], ast.Name):
                tname = node.targets[0].id
                try:
                    val = ast.literal_eval(node.value)
                except Exception:
                    continue
                if isinstance(val, dict) and val and all(isinstance(k, str) for k in val) and any(
                        isinstance(v, list) and len(v) == 4 for v in val.values()):
                    defs = val
                elif isinstance(val, list) and val and all(isinstance(s, str) for s in val):
                    if "purine" in tname and "pyrimidine" not in tname:
                        pu_names = val
                    elif "pyrimidine" in tname:
                        py_names = val
        # chi atoms: common prefix (find_atom calls outside the name tests) + per-branch calls
        branches = []
        for node in ast.walk(ft):
            if (isinstance(node, ast.If) and isinstance(node.test, ast.Compare) and len(node.test.ops) == 1
                    and isinstance(node.test.ops[0], ast.In) and isinstance(node.test.comparators[0], ast.Name)
                    and "bases" in node.test.comparators[0].id):
                branches.append((node.lineno, node.test.comparators[0].id, _find_atom_names(node.body)))
        branches.sort()
        prefix = []
        for node in ast.walk(ft):
            if (isinstance(node, ast.Assign) and len(node.targets) == 1 and isinstance(node.targets[0], ast.Name)
                    and node.targets[0].id.endswith("_prime")):
                prefix += _find_atom_names([node.value])
        for _, nm, atoms in branches:
            if len(prefix) == 2 and len(atoms) == 2:
                if "pyrimidine" in nm:
                    v2_py = prefix + atoms
                elif "purine" in nm:
                    v2_pu = prefix + atoms
    ok_defs = (isinstance(defs, dict) and all(
        v is None or (len(v) == 4 and all(isinstance(a, tuple) and len(a) == 2 and isinstance(a[0], str)
                                          and isinstance(a[1], int) for a in v)) for v in defs.values()))
    defs = take("torsion.v2Definitions", defs, ok_defs)
    pu_names = take("torsion.v2PurineNames", pu_names, pu_names is not None)
    py_names = take("torsion.v2PyrimidineNames", py_names, py_names is not None)
    v2_pu = take("torsion.v2ChiPurine", v2_pu, v2_pu is not None)
    v2_py = take("torsion.v2ChiPyrimidine", v2_py, v2_py is not None)

    # ---------------- emit
    out.append("/-- tertiary.calculate_torsion_angle_coords: `norm(v) > eps` guards of the three normalisations -/")
    out.append("def v1NormEps : Rat := %s" % lean_rat(v1_norm))
    out.append("/-- tertiary.calculate_torsion_angle_coords: `norm(t1) < eps or norm(t2) < eps` returns `v1DegenerateValue` -/")
    out.append("def v1CrossEps : Rat := %s" % lean_rat(v1_cross))
    out.append("def v1DegenerateValue : Rat := %s" % lean_rat(deg_val))
    out.append("def v1ClipLo : Rat := %s" % lean_rat(clip[0]))
    out.append("def v1ClipHi : Rat := %s" % lean_rat(clip[1]))
    out.append("/-- tertiary_v2.calculate_torsion_angle: `n1_norm < eps or n2_norm < eps` returns nan -/")
    out.append("def v2CrossEps : Rat := %s\n" % lean_rat(v2_cross))
    out.append("def v1ChiPurine : List String := %s" % _strs(v1_pu))
    out.append("def v1ChiPyrimidine : List String := %s" % _strs(v1_py))
    out.append("def v1PurineLetters : List String := %s" % _strs(v1_pul))
    out.append("def v1PyrimidineLetters : List String := %s" % _strs(v1_pyl))
    out.append("/-- Residue3D.chi_class: syn iff radians(lo) < chi < radians(hi) (degrees) -/")
    out.append("def v1SynLoDeg : Rat := %s" % lean_rat(bounds[0]))
    out.append("def v1SynHiDeg : Rat := %s\n" % lean_rat(bounds[1]))
    out.append("def v2ChiPurine : List String := %s" % _strs(v2_pu))
    out.append("def v2ChiPyrimidine : List String := %s" % _strs(v2_py))
    out.append("def v2PurineNames : List String := %s" % _strs(pu_names))
    out.append("def v2PyrimidineNames : List String := %s" % _strs(py_names))
    rows = []
    for k, v in defs.items():
        if v is None:
            continue
        rows.append("(%s, [%s])" % (lean_str(k), ", ".join(
            "(%s, (%s : Int))" % (lean_str(a), ("%d" % o if o >= 0 else "-%d" % -o)) for a, o in v)))
    out.append("/-- tertiary_v2 torsion_definitions: name, four (atom, residue offset) -/")
    out.append("def v2Definitions : List (String × List (String × Int)) :=\n  [" + ",\n   ".join(rows) + "]")
    out.append("def v2SeparateAngles : List String := %s" % _strs([k for k, v in defs.items() if v is None]))
    out.append("\nend RnaVerif.Gen.Tor\n")
    return {"Torsion.lean": "\n".join(out)}

"""Translator for src/rnapolis/transformer.py -> Generated/Transformer.lean

Live objects: the default arguments of `copy_from_to` / `replace_value` (category, item names, the
default substitution alphabet).  `ast`: the option strings of `main` and four facts about its body
that decide whether the tool does what the library does:

  cliReadsFirst          an `open(args.input …)` call precedes the mode dispatch
  cliCopyPassesPath      the first argument of the `copy_from_to(…)` call is `args.input` (the path)
  cliReplacePassesPath   the first argument of the `replace_value(…)` call is `args.input`
  cliReplaceWritesTuple  the value of the `replace_value(…)` call is bound, whole, to the name that is
                         later given to `.write(…)` (no tuple unpacking, no `[0]`)

The walker looks for shapes (a call of that name inside `main`, an attribute `<ns>.input` where `<ns>`
is the name bound to `parse_args()`), not for line numbers or variable names.
"""
import ast
import inspect

from genlib import HEADER, find_function, lean_list, lean_str, module_ast

PIN = {
    "transformer.cliOptions": ["input", "output", "--category", "--copy-from", "--copy-to", "--replace", "--values"],
}


def _calls(fn, name):
    out = []
    for n in ast.walk(fn):
        if isinstance(n, ast.Call):
            f = n.func
            if (isinstance(f, ast.Name) and f.id == name) or (isinstance(f, ast.Attribute) and f.attr == name):
                out.append(n)
    return sorted(out, key=lambda n: (n.lineno, n.col_offset))


def _ns_name(fn):
    """name bound to `<parser>.parse_args()`"""
    for n in ast.walk(fn):
        if isinstance(n, ast.Assign) and isinstance(n.value, ast.Call):
            f = n.value.func
            if isinstance(f, ast.Attribute) and f.attr == "parse_args" and len(n.targets) == 1 \
                    and isinstance(n.targets[0], ast.Name):
                return n.targets[0].id
    return None


def _is_input_attr(node, ns):
    return isinstance(node, ast.Attribute) and node.attr == "input" and isinstance(node.value, ast.Name) \
        and node.value.id == ns


def _first_arg(call, kw):
    if call.args:
        return call.args[0]
    for k in call.keywords:
        if k.arg == kw:
            return k.value
    return None


def _parents(fn):
    par = {}
    for n in ast.walk(fn):
        for ch in ast.iter_child_nodes(n):
            par[ch] = n
    return par


def _written_names(fn):
    """names given whole to some `.write(<name>)` call"""
    out = set()
    for c in _calls(fn, "write"):
        if c.args and isinstance(c.args[0], ast.Name):
            out.add(c.args[0].id)
    return out


def cli_facts(ctx, tree):
    fn = find_function(tree, "main")
    if fn is None:
        ctx.lost("transformer.main")
        return None
    ns = _ns_name(fn)
    cp = _calls(fn, "copy_from_to")
    rp = _calls(fn, "replace_value")
    if ns is None or len(cp) != 1 or len(rp) != 1:
        ctx.lost("transformer.main.dispatch")
        return None
    par = _parents(fn)
    facts = {}
    facts["copyPassesPath"] = _is_input_attr(_first_arg(cp[0], "file_content"), ns)
    facts["replacePassesPath"] = _is_input_attr(_first_arg(rp[0], "file_content"), ns)
    # is the whole tuple what gets written?
    p = par.get(rp[0])
    written = _written_names(fn)
    tup = False
    if isinstance(p, ast.Assign) and p.value is rp[0] and len(p.targets) == 1 and isinstance(p.targets[0], ast.Name):
        tup = p.targets[0].id in written
    elif isinstance(p, ast.Call) and isinstance(p.func, ast.Attribute) and p.func.attr == "write":
        tup = True
    facts["replaceWritesTuple"] = tup
    # open(<ns>.input …) before the first of the two library calls' enclosing `if`
    first_dispatch = min(cp[0].lineno, rp[0].lineno)
    node = cp[0] if cp[0].lineno <= rp[0].lineno else rp[0]
    while node in par and not isinstance(par[node], ast.FunctionDef):
        node = par[node]
    first_dispatch = node.lineno
    reads = False
    for c in _calls(fn, "open"):
        if c.args and _is_input_attr(c.args[0], ns) and c.lineno < first_dispatch:
            reads = True
    facts["readsFirst"] = reads
    # option strings
    opts = []
    for c in _calls(fn, "add_argument"):
        if c.args and isinstance(c.args[0], ast.Constant) and isinstance(c.args[0].value, str):
            opts.append(c.args[0].value)
    facts["options"] = opts
    return facts


def emit(ctx):
    tree, _ = module_ast("transformer")
    import rnapolis.transformer as T
    out = [HEADER, "namespace RnaVerif.Gen\n"]
    sc = inspect.signature(T.copy_from_to).parameters
    sr = inspect.signature(T.replace_value).parameters

    def dflt(params, name):
        p = params.get(name)
        return p.default if p is not None and isinstance(p.default, str) else None

    vals = {
        "trDefaultCopyCategory": dflt(sc, "category"),
        "trDefaultCopyFrom": dflt(sc, "copy_from"),
        "trDefaultCopyTo": dflt(sc, "copy_to"),
        "trDefaultReplaceCategory": dflt(sr, "category"),
        "trDefaultReplaceColumn": dflt(sr, "column"),
        "trDefaultValues": dflt(sr, "values"),
    }
    for k, v in vals.items():
        if v is None:
            ctx.lost("transformer." + k)
            v = ctx.pin("transformer." + k, "")
        out.append("/-- default argument of the library function (live object) -/")
        out.append("def %s : String := %s\n" % (k, lean_str(v)))
    facts = cli_facts(ctx, tree)
    if facts is None:
        # anchor lost: assume the documented behaviour; the subprocess correspondence still decides
        facts = {"copyPassesPath": False, "replacePassesPath": False, "replaceWritesTuple": False,
                 "readsFirst": True, "options": ctx.pin("transformer.cliOptions", PIN["transformer.cliOptions"])}
    out.append("/-- positional arguments and option strings of `main`, in declaration order -/")
    out.append("def cliOptions : List String :=\n  %s\n" % lean_list([lean_str(o) for o in facts["options"]]))
    for k, doc in (("readsFirst", "`open(args.input …)` precedes the mode dispatch"),
                   ("copyPassesPath", "`copy_from_to` is called with `args.input` (the path) as file content"),
                   ("replacePassesPath", "`replace_value` is called with `args.input` (the path) as file content"),
                   ("replaceWritesTuple", "the `(text, mapping)` tuple returned by `replace_value` is given to `write`")):
        out.append("/-- %s -/" % doc)
        out.append("def cli%s : Bool := %s\n" % (k[0].upper() + k[1:], "true" if facts[k] else "false"))
    out.append("end RnaVerif.Gen\n")
    return {"Transformer.lean": "\n".join(out)}

"""Translator for src/rnapolis/unifier.py, splitter.py and component_*.csv -> Generated/Unifier.lean

* `component_{A,C,G,U}.csv` (read with the csv module, the same files `load_components` reads): per residue name
  the rows (atom_id, alt_atom_id) in file order;
* `unifier.main` (`ast`, by shape): the string of the residue-name test `residue.residue_name not in "<S>"`, the
  prefix of `valid_names.str.startswith("<H>")`, the string `load_components` iterates over;
* `unifier.main` / `splitter.main`: is the frame given to `write_pdb` the value of a `fit_to_pdb(...)` call
  (`unifierFitsBeforeWrite`, `splitterFitsBeforeWrite`).

Lost anchors fall back to the pinned values below (the tree this framework was built against).
"""
import ast
import csv
import os

from genlib import HEADER, REPO_SRC, find_function, lean_list, lean_str, module_ast

PIN = {"nameTest": "ACGU", "hydrogenPrefix": "H", "componentNames": "ACGU", "fits": True}


def _fits_before_write(fn):
    """some `write_pdb(X, …)` call inside `fn` has a first argument X (a name) that is bound to `fit_to_pdb(…)`,
    and no `write_pdb` call takes anything else"""
    fitted = set()
    for n in ast.walk(fn):
        if isinstance(n, ast.Assign) and isinstance(n.value, ast.Call):
            f = n.value.func
            nm = f.id if isinstance(f, ast.Name) else f.attr if isinstance(f, ast.Attribute) else None
            if nm == "fit_to_pdb":
                for t in n.targets:
                    if isinstance(t, ast.Name):
                        fitted.add(t.id)
    calls = []
    for n in ast.walk(fn):
        if isinstance(n, ast.Call):
            f = n.func
            nm = f.id if isinstance(f, ast.Name) else f.attr if isinstance(f, ast.Attribute) else None
            if nm == "write_pdb" and n.args:
                a = n.args[0]
                direct = isinstance(a, ast.Call) and (getattr(a.func, "id", None) == "fit_to_pdb" or getattr(a.func, "attr", None) == "fit_to_pdb")
                calls.append(direct or (isinstance(a, ast.Name) and a.id in fitted))
    if not calls:
        raise ValueError("no write_pdb call")
    return all(calls)


def emit(ctx):
    comps = {}
    names = PIN["componentNames"]
    r = {}
    try:
        tree, _ = module_ast("unifier")
        main = find_function(tree, "main")
        lc = find_function(tree, "load_components")
        loops = [n for n in ast.walk(lc) if isinstance(n, ast.For) and isinstance(n.iter, ast.Constant) and isinstance(n.iter.value, str)]
        assert len(loops) == 1
        r["componentNames"] = loops[0].iter.value
        tests = [n for n in ast.walk(main) if isinstance(n, ast.Compare) and len(n.ops) == 1 and isinstance(n.ops[0], ast.NotIn)
                 and isinstance(n.comparators[0], ast.Constant) and isinstance(n.comparators[0].value, str)
                 and "residue_name" in ast.unparse(n.left)]
        assert len(tests) == 1
        r["nameTest"] = tests[0].comparators[0].value
        sw = [n for n in ast.walk(main) if isinstance(n, ast.Call) and isinstance(n.func, ast.Attribute) and n.func.attr == "startswith"
              and n.args and isinstance(n.args[0], ast.Constant)]
        assert len(sw) == 1
        r["hydrogenPrefix"] = sw[0].args[0].value
    except Exception:
        ctx.lost("unifier.main.literals")
        r = {k: PIN[k] for k in ("componentNames", "nameTest", "hydrogenPrefix")}
    try:
        tree, _ = module_ast("unifier")
        r["unifierFits"] = _fits_before_write(find_function(tree, "main"))
    except Exception:
        ctx.lost("unifier.main.fit_before_write")
        r["unifierFits"] = PIN["fits"]
    try:
        tree, _ = module_ast("splitter")
        r["splitterFits"] = _fits_before_write(find_function(tree, "main"))
    except Exception:
        ctx.lost("splitter.main.fit_before_write")
        r["splitterFits"] = PIN["fits"]
    names = r["componentNames"]
    for c in names:
        path = os.path.join(REPO_SRC, "component_%s.csv" % c)
        with open(path, newline="") as f:
            rows = list(csv.DictReader(f))
        comps[c] = [(row["atom_id"], row["alt_atom_id"]) for row in rows]
    o = [HEADER, "namespace RnaVerif.Gen.Unifier\n"]
    o.append("/-- `residue.residue_name not in \"…\"` (a *substring* test) -/")
    o.append("def nameTest : String := %s" % lean_str(r["nameTest"]))
    o.append("/-- `valid_names[~valid_names.str.startswith(\"…\")]` -/")
    o.append("def hydrogenPrefix : String := %s" % lean_str(r["hydrogenPrefix"]))
    o.append("/-- is the frame handed to `write_pdb` the value of `fit_to_pdb(…)`? -/")
    o.append("def unifierFitsBeforeWrite : Bool := %s" % ("true" if r["unifierFits"] else "false"))
    o.append("def splitterFitsBeforeWrite : Bool := %s\n" % ("true" if r["splitterFits"] else "false"))
    o.append("/-- `load_components()`: residue name ↦ rows (atom_id, alt_atom_id) of `component_<name>.csv` in file order -/")
    o.append("def components : List (String × List (String × String)) :=\n  [" + ",\n   ".join(
        "(%s,\n    %s)" % (lean_str(c), lean_list(["(%s, %s)" % (lean_str(a), lean_str(b)) for a, b in comps[c]], 6).replace("\n   ", "\n     "))
        for c in names) + "]\n")
    o.append("end RnaVerif.Gen.Unifier")
    return {"Unifier.lean": "\n".join(o) + "\n"}

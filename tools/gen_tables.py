#!/venv/bin/python
"""Translator part of the tie: regenerate lean/RnaVerif/Generated/*.lean from /repo's working tree.

Run on every check.  Files are rewritten only when their content changes (so lake
re-checks exactly the theorems that depend on a changed value).  Prints a JSON
summary: {"changed": [...], "anchor_lost": [...], "files": [...]}.
Exit code 2 = generator fault (never a verdict).
"""
import importlib
import json
import os
import sys
import traceback

HERE = os.path.dirname(os.path.abspath(__file__))
sys.path.insert(0, HERE)
sys.path.insert(0, os.path.join(HERE, "gen"))
import genlib  # noqa: E402

GEN_DIR = os.path.join(genlib.VERIF, "lean", "RnaVerif", "Generated")


def main():
    only = set(sys.argv[1:])
    ctx = genlib.Ctx()
    os.makedirs(GEN_DIR, exist_ok=True)
    changed, files, errors = [], [], []
    mods = sorted(f[:-3] for f in os.listdir(os.path.join(HERE, "gen")) if f.endswith(".py") and not f.startswith("_"))
    for m in mods:
        if only and m not in only:
            continue
        try:
            mod = importlib.import_module(m)
            res = mod.emit(ctx)
        except Exception:
            # the anchors of this generator can no longer be read from the source: the committed (pinned) generated
            # file stays in place and the values are carried by the correspondence alone (DESIGN.md 4.1 item 3)
            errors.append({"generator": m, "error": traceback.format_exc()})
            ctx.lost("generator:%s" % m)
            continue
        for name, text in res.items():
            path = os.path.join(GEN_DIR, name)
            files.append(name)
            old = None
            if os.path.exists(path):
                with open(path) as f:
                    old = f.read()
            if old != text:
                with open(path, "w") as f:
                    f.write(text)
                changed.append(name)
    print(json.dumps({"changed": changed, "anchor_lost": ctx.anchor_lost, "files": files, "errors": errors}))
    # a generator that cannot read a *changed* source is a lost anchor, not a fault; it is a fault (exit 2) only
    # when nothing at all could be generated
    return 2 if errors and not files else 0


if __name__ == "__main__":
    sys.exit(main())

"""Shared helpers for the translator part of the tie (tools/gen/*.py).

Every generator module under tools/gen exposes ``emit(ctx) -> dict`` mapping a
file name (relative to lean/RnaVerif/Generated) to Lean source text.  Values are
read from the *live* modules of /repo's working tree first, and with ``ast`` for
literals that live only inside function bodies.  Anchors that cannot be located
are reported through ``ctx.lost(name)`` and the pinned value is used instead.
"""
import ast
import inspect
import json
import os
import textwrap
from fractions import Fraction

REPO_SRC = os.environ.get("RNAPOLIS_SRC", "/repo/src/rnapolis")
VERIF = os.path.dirname(os.path.dirname(os.path.abspath(__file__)))
PINNED = os.path.join(VERIF, "tools", "pinned.json")


class Ctx:
    def __init__(self):
        self.anchor_lost = []
        self.notes = []
        try:
            self.pinned = json.load(open(PINNED))
        except Exception:
            self.pinned = {}

    def lost(self, name):
        self.anchor_lost.append(name)

    def pin(self, name, default=None):
        return self.pinned.get(name, default)


def module_ast(modname):
    path = os.path.join(REPO_SRC, modname + ".py")
    with open(path) as f:
        src = f.read()
    return ast.parse(src), src


def find_function(tree, qualname):
    """qualname like 'BpSeq.fcfs' or 'parse_pdb'."""
    parts = qualname.split(".")
    node = tree
    for p in parts:
        found = None
        for ch in ast.walk(node) if node is tree and len(parts) == 1 else ast.iter_child_nodes(node):
            if isinstance(ch, (ast.FunctionDef, ast.ClassDef, ast.AsyncFunctionDef)) and ch.name == p:
                found = ch
                break
        if found is None:
            return None
        node = found
    return node


def lean_str(s):
    out = []
    for ch in s:
        o = ord(ch)
        if ch == '"':
            out.append('\\"')
        elif ch == "\\":
            out.append("\\\\")
        elif ch == "\n":
            out.append("\\n")
        elif ch == "\t":
            out.append("\\t")
        elif 32 <= o < 127:
            out.append(ch)
        else:
            out.append("\\u{%x}" % o)
    return '"' + "".join(out) + '"'


def lean_char(c):
    assert len(c) == 1
    o = ord(c)
    if c == "'":
        return "'\\''"
    if c == "\\":
        return "'\\\\'"
    if 32 <= o < 127:
        return "'" + c + "'"
    return "(Char.ofNat %d)" % o


def lean_list(items, per_line=8):
    if not items:
        return "[]"
    rows = []
    for i in range(0, len(items), per_line):
        rows.append(", ".join(items[i:i + per_line]))
    return "[" + ",\n   ".join(rows) + "]"


def lean_rat(x):
    """Exact rational for a Python float/int through its repr (4.0 -> 4, 0.54 -> 27/50)."""
    if isinstance(x, bool):
        raise TypeError(x)
    if isinstance(x, int):
        fr = Fraction(x)
    else:
        fr = Fraction(repr(float(x)))
    if fr.denominator == 1:
        return "(%d : Rat)" % fr.numerator if fr.numerator >= 0 else "(-%d : Rat)" % -fr.numerator
    n, d = fr.numerator, fr.denominator
    if n < 0:
        return "(-%d / %d : Rat)" % (-n, d)
    return "(%d / %d : Rat)" % (n, d)


def lean_opt_str(s):
    return "none" if s is None else "(some %s)" % lean_str(s)


HEADER = "-- GENERATED on every run by /verif/tools/gen_tables.py from /repo/src/rnapolis — do not edit\n"


def unparse(node):
    return ast.unparse(node)

#!/usr/bin/env python3
"""Behaviour-preserving halves of seeded two-edit changes, used to measure false alarms on harmless rewrites.

For every seeded change whose description says it consists of cooperating edits that are each harmless alone, the patch
is split (per file, and per hunk for single-file patches); a part is kept under /verif/harmless/<id>-<k>/ when, applied
alone to a scratch worktree of /repo, the package still imports and the change's own demo still exits 0 (the property
holds).  `SEEDED_DIR=/verif/harmless tools/seeded.py run` then runs the property's check against each kept part; the
expected outcome is exit 0 (reported there as "MISSED exit=0").
"""
import json
import os
import re
import shutil
import subprocess
import sys
import tempfile

VERIF = os.path.dirname(os.path.dirname(os.path.abspath(__file__)))
SEEDED = os.path.join(VERIF, "seeded")
OUT = os.path.join(VERIF, "harmless")


def sh(cmd, **kw):
    p = subprocess.run(cmd, stdout=subprocess.PIPE, stderr=subprocess.STDOUT, **kw)
    return p.returncode, p.stdout.decode(errors="replace")


def split_patch(text):
    files = re.split(r"(?m)^(?=diff --git )", text)
    files = [f for f in files if f.strip()]
    parts = []
    if len(files) > 1:
        for k in range(len(files)):
            parts.append(files[k])
            if len(files) > 2:
                parts.append("".join(files[:k] + files[k + 1:]))
    else:
        head, *hunks = re.split(r"(?m)^(?=@@ )", files[0])
        if len(hunks) > 1:
            for k in range(len(hunks)):
                parts.append(head + hunks[k])
                if len(hunks) > 2:
                    parts.append(head + "".join(hunks[:k] + hunks[k + 1:]))
    seen, out = set(), []
    for p in parts:
        if p not in seen:
            seen.add(p)
            out.append(p)
    return out


def main(ids):
    os.makedirs(OUT, exist_ok=True)
    for sid in ids:
        d = os.path.join(SEEDED, sid)
        meta = json.load(open(os.path.join(d, "meta.json")))
        demo = next((os.path.join(d, f) for f in os.listdir(d) if f.startswith("demo")), None)
        parts = split_patch(open(os.path.join(d, "patch.diff")).read())
        kept = 0
        for k, part in enumerate(parts):
            tree = tempfile.mkdtemp(prefix="harmless-", dir="/tmp")
            os.rmdir(tree)
            rc, out = sh(["git", "-C", "/repo", "worktree", "add", "-q", "--detach", tree, "HEAD"])
            assert rc == 0, out
            try:
                pf = os.path.join(tree, "part.diff")
                open(pf, "w").write(part)
                rc, out = sh(["git", "-C", tree, "apply", "--recount", pf])
                if rc != 0:
                    continue
                os.remove(pf)
                env = dict(os.environ, PYTHONPATH=os.path.join(tree, "src"))
                rc, out = sh(["/venv/bin/python", "-c", "import rnapolis.common, rnapolis.tertiary, rnapolis.annotator, rnapolis.parser, "
                              "rnapolis.parser_v2, rnapolis.tertiary_v2, rnapolis.adapter, rnapolis.transformer, rnapolis.clashfinder, "
                              "rnapolis.molecule_filter, rnapolis.unifier, rnapolis.splitter"], env=env, cwd=tree)
                if rc != 0:
                    continue
                if demo:
                    try:
                        rc, out = sh(["/venv/bin/python", demo], env=env, cwd=tree, timeout=600)
                    except subprocess.TimeoutExpired:
                        continue
                    if rc != 0:
                        continue
                rc, diff = sh(["git", "-C", tree, "diff"])
                hd = os.path.join(OUT, "%s-%d" % (sid, k + 1))
                os.makedirs(hd, exist_ok=True)
                open(os.path.join(hd, "patch.diff"), "w").write(diff)
                json.dump({"property": meta["property"], "from": sid, "title": "part %d of %s: %s" % (k + 1, sid, meta.get("title", "")[:120]),
                           "kept_because": "applies alone, package imports, the change's own demo exits 0"},
                          open(os.path.join(hd, "meta.json"), "w"), indent=1)
                kept += 1
            finally:
                sh(["git", "-C", "/repo", "worktree", "remove", "--force", tree])
        print(sid, "parts:", len(parts), "kept:", kept, flush=True)


if __name__ == "__main__":
    main(sys.argv[1:])

#!/usr/bin/env python3
"""Regenerate MANIFEST.json (and lean/RnaVerif.lean's Props imports) from the table below."""
import json
import os

VERIF = os.path.dirname(os.path.dirname(os.path.abspath(__file__)))

COMMON_NOTE = ("Trusted: Lean 4.33.0 kernel (+ leanchecker in thorough); axioms ⊆ {propext, Classical.choice, Quot.sound} audited per "
               "theorem on every run; tools/gen_tables.py (translator of tables, constants, predicates) and tools/py2lean.py (translator of small "
               "pure functions; a function outside its subset is refused and carried by the correspondence alone) and the correspondence harness. The theorems are about the Lean "
               "model; the model is tied to /repo's working tree on every run by regenerated tables (bridge theorems) and by the "
               "differential run whose coverage is in the evidence. Modelled, not verified: CPython semantics of the constructs used. ")

CHECKS = {
 "C01": dict(
  text="Lean theorems (Props.C01): for every valid BPSEQ and every proper level vector below 30, the writer's string decodes (per-type "
       "stacks) to exactly the structure's pairs, same length, bracket alphabet only, all stacks empty, no crossing on one type "
       "(decode_mkDB, lossless_perm, written_noncrossing); FCFS instance (fcfs_lossless); converse round trip (roundtrip_db, "
       "roundtrip_db_back); stems partition the pairs (regions_cover) and the outer-pair conflict test decides crossing of whole stems "
       "(cross_uniform). Unbounded in length and nesting — what no test enumeration reaches. Bridges re-checked against regenerated "
       "tables: 30 bracket pairs identical in encoder/decoder/FCFS, conflict test identical at the three call sites.",
  note="Assumes: regex engine of MultiStrandDotBracket not modelled; the optimal notation's levels come from the external MILP solver "
       "(relational check: its output must satisfy the Lean predicate `lossless`). mkDB is modelled pointwise (token function), tied to the "
       "real writer by byte comparison on random level vectors incl. out-of-range levels.",
  technique="Lean 4 proof (stack-decoder invariant, induction over positions) + functional/relational correspondence on exhaustive n<=8/10 and random structures",
  ref="9/C01"),
 "C02": dict(
  text="Lean theorems (Props.C02): the MILP built by the code (milp, regenerated objective/level bound) is feasible exactly for one-hot "
       "encodings of proper level vectors with objective = score (milp_feasible_iff, milp_objective); any optimal solution of it is optimal "
       "among ALL proper assignments with any number of levels (milp_optimal_is_global, via pushdown: greedy along a sorted order never "
       "exceeds a proper colouring); consequences optimal_is_grundy, knot_free_all_round/unique, optimal_ge_fcfs; existence of an optimum "
       "(non-vacuity). The solver is a hypothesis of the theorem and is checked per instance against an independent exact optimiser.",
  note="Assumes the external solver (CBC/HiGHS) returns an integral optimal solution of the program it is handed — checked on every sampled "
       "instance (exact branch-and-bound in the model); PuLP's translation of the problem object captured by a spy solver and compared "
       "with the Lean program after canonicalisation.",
  technique="Lean 4 proof (MILP ↔ proper colourings, push-down/Grundy argument) + spy-solver formulation equality + exact-optimum relational check",
  ref="9/C02"),
 "C07": dict(
  text="Decidable Lean specification (ElementsSpec.specAll: stems partition/mirrored/maximal, hairpins exact, loops closed with paired "
       "consecutive ends and unpaired interiors, every unpaired nucleotide in exactly one interior) evaluated on the REAL element lists, and "
       "an executable Lean model of BpSeq.elements compared description-by-description with the code; Props.C07 proves that the model "
       "meets every clause of the specification for EVERY valid BPSEQ (elements_meet_spec; stems_spec, hairpins_exact, candidates_tile, "
       "loops_spec, loops_disjoint, unpaired_covered_once, strand_text_is_slice) — including the no-pairs case repaired in c356e0e.",
  note="The strand texts depend on the optimal dot-bracket (solver choice): the model takes the real structure line as input. Text = slice "
       "is checked as string equality in the harness.",
  technique="Lean 4 decidable spec + model/code functional correspondence (exhaustive n<=8/10, random nested/knotted) + Lean theorems model ⊨ spec",
  ref="9/C07"),
 "C12": dict(
  text="Lean theorem history_as_fresh (Props.C12): for every structure, every deterministic solver choice and every call sequence of any "
       "length over the 8 public queries/derivations, the object model with its cache slots answers exactly as a fresh copy; "
       "entries_unchanged. The real object is driven through random and exhaustive histories and compared step by step with fresh objects "
       "(spec) and with the model (correspondence); both removals are compared with the model and with their defining descriptions. Props.C12Ext extends the object model to the rest of BpSeq's public surface — convert_to_dot_bracket(solver) with an explicit solver for every solver outcome of C13, sequence, the pairs dictionary, __eq__, from_string(str(b)) — and proves history_as_fresh_ext (any interleaving, any length, from every consistent cache state), convert_leaves_dot_slot and convert_does_not_poison_cache (explicit conversion and the cached dot_bracket never serve each other's answer; witness (.[[[.)..]]] where FCFS ≠ optimal). The harness sends every full history to the extended model (ss.history_ext) and compares each step with the real object and with fresh objects.",
  note="The model has one slot per cached_property; aliasing between Python objects cannot be expressed in the functional model and is "
       "covered by the history-level differential run (this is how the without_isolated defect was found).",
  technique="Lean 4 proof (cache-slot invariant, induction over the history) + history-level differential testing against fresh objects",
  ref="9/C12"),
 "C13": dict(
  text="Lean theorems (Props.C13): with the solver as a parameter {absent, raises, non-optimal status, optimal values}, convert returns "
       "the FCFS encoding in every fall-back (convert_fallback) and a lossless encoding in every branch (convert_lossless_fallback / "
       "_knotfree / _optimal, via C01). The way each fall-back is written in the source (attribute vs call of the cached property) is "
       "regenerated from the AST and pinned by the bridge fallback_sites_ok. Real code driven through 3 configurations x 6 fault "
       "behaviours with a spy solver.",
  note="Only PulpSolverError is a 'solver error' (other exception types propagate by design). HiGHS is not installed: the HiGHS "
       "configuration is emulated by patching pulp.HiGHS_CMD with an available spy.",
  technique="Lean 4 proof over solver outcomes + fault-injection correspondence (spy solver, patched pulp configuration)",
  ref="9/C13"),
 "C16": dict(
  text="Lean theorems (Props.C16): allLevels enumerates exactly the Grundy colourings of the conflict graph, without repetition "
       "(allLevels_exact, allLevels_nodup: permutations complete, greedy ↔ Grundy, product over checked parts); strings are in one-to-one "
       "correspondence with them (mkDB_injective_in_levels, allDB_exact, allDB_one_to_one_valid); FCFS and a dominating optimum are "
       "members; knot-free ⇒ single round-bracket string. For every conflict graph, not only groups of ≤ 8 stems. Implementation level (Props.C16Impl, model Model/AllDBImpl.lean mirroring all_dot_brackets statement by statement with the iteration order of every set it iterates as adversarial parameters σ (graph[v]), τ (unique[i]), ρ (frozensets)): for every σ, τ, ρ the DFS returns exactly the connected components of the conflict graph on the stems of positive degree (dfs_components_are_classes: partition, closed, connected; fuel proved sufficient), the available/next(filter) loop is the mex/greedy colouring along each permutation and never raises (greedy_loop_is_mex), and the returned list is a permutation of the specification model's list, duplicate-free (impl_same_as_spec, impl_mem_iff, impl_exact, impl_nodup), contains FCFS and a dominating optimum, and is [fcfs] for knot-free structures.",
  note="The implementation's DFS component search and set-based de-duplication are covered by the set-level correspondence, not mirrored. The implementation's graph construction, DFS component search, greedy loop, product and de-duplication are mirrored in Model/AllDBImpl.lean and proved (Props.C16Impl) for every set-iteration order; the correspondence compares the real list with that model as a set, in length, per component and — with σ, τ measured on the running CPython — in ORDER. Still assumed: CPython iterates two int-keyed sets built by the same sequence of first insertions in the same order; itertools.permutations/product/combinations enumerate as documented.",
  technique="Lean 4 proof (permutation enumeration, greedy/Grundy equivalence, product decomposition) + set-level correspondence",
  ref="9/C16"),
 "C14": dict(
  category="other",
  text="Weakest claim of the set, stated as such: (i) an AST inventory of every place where rnapolis iterates a hash-ordered collection, "
       "re-run on every check, must match a committed allow-list whose entries are classified (int / int-tuple elements whose hashes do "
       "not depend on PYTHONHASHSEED; enumeration whose result is order-free by Lean theorems Props.C14: sorted_order_independent, "
       "allLevels_membership_order_free, dedupFirst_spec); (ii) every output named in the property is recomputed in fresh interpreters "
       "under 5 (quick) / 12 (thorough) hash seeds incl. 'random' and twice in-process and compared byte for byte. A functional Lean model "
       "is deterministic by construction, so the theorems only cover order-independence of the modelled iteration sites. For 'the list of all dot-brackets in order' the order dependence is a theorem about the algorithm as written (Props.C14Impl over Model/AllDBImpl.lean): the list as a collection is independent of every set-iteration order (alldb_collection_order_free); its order is a function of the iteration orders of the sets unique[i] alone — not of the int sets graph[v], not of the frozensets (alldb_list_function_of_unique_iteration) — and does depend on them (two-element witness alldb_list_depends_on_unique_iteration). Byte-identity across hash seeds therefore reduces to: CPython iterates sets of frozensets of int pairs with equal insertion history identically.",
  note="Nondeterminism inside SciPy, pandas, orjson, CBC or the OS is outside any model and is covered by the differential runs alone; "
       "CPython's iteration order of int / int-tuple sets is assumed to be a function of contents and insertion history. The reduction above is proved; the CPython fact it reduces to is assumed and exercised by the hash-seed differential runs and, per structure, by the exact list-order comparison of corr/c16_impl.py.",
  technique="AST site inventory vs classified allow-list + Lean order-independence lemmas + hash-seed differential runs in fresh interpreters",
  ref="9/C14"),
 "C19": dict(
  text="Lean theorems (Props.C19) about a model of adapter.py's label normalisation, unit-id parsing, line dispatch and DSSR matching: "
       "unify_lw/unify_stack/unify_bph_br (all case variants, n prefix, a suffix), unify_total, and for ALL ASCII strings "
       "unify_other_iff (label is 'other' iff not in the explicit grammar Recognised); line_yields_one, line_skipped_iff, listing_total "
       "(never raises; kept lines = lines meeting the line spec, in order); dssr_pairs_exact, dssr_stacks_exact, dssr_total. Bridges pin "
       "the regenerated literal tables and the 18-member LW test (dssr_lw_test_exact). Props.C19Fn: match_dssr_lw regenerated from the source text and proved equal to Labels.matchLw for every string.",
  note="Python int() is modelled (whitespace, sign, underscores, 4300-digit limit) and compared exhaustively up to length 4/5, not "
       "proved against a grammar; non-ASCII labels (str.upper() surprises) are outside the statement's alphabet and only counted; "
       "adapter.main not modelled (public wrappers compared on 184D).",
  technique="Lean 4 proof (structural, all strings) + exhaustive label/int strings up to length 4 (quick) / 5 (thorough) + generated listings and DSSR documents",
  ref="9/C19"),
 "C20": dict(
  text="Lean theorems (Props.C20) about a model of transformer.py on abstract mmCIF documents: copy_frame / replace_frame (only the "
       "target item of the target category changes; categories, items, rows and row order kept), copy_target_eq_source, "
       "copy_new_item_appended, replace_is_firstSeen_image + firstSeen_injective (for alphabets without repeats), "
       "replace_alphabet_exhausted_iff_error, missing_leaves_untouched, cli_eq_library (with the CLI's argument passing regenerated "
       "from main()'s AST and pinned by the bridge cli_flags_fixed).",
  note="The mmcif package's reader/writer is the trusted tokeniser (documents compared as maps category -> (items, rows); category order "
       "is not demanded: the writer reorders categories). Injectivity is claimed for substitution alphabets without repeated letters.",
  technique="Lean 4 proof (frame conditions, first-seen map) + parsed-document correspondence on corpus and generated mmCIF + CLI subprocess runs",
  ref="9/C20"),
 "C18": dict(
  text="Lean theorems (Props.C18): both torsion functions modelled as the pair handed to atan2 (polynomials in the coordinates, common "
       "positive factors dropped and proved harmless: v1_scaling, v2_scaling). Over ℝ with atan2 := Complex.arg: for the canonical frame "
       "with ANY bond lengths and angles tertiary.py returns φ (v1_returns_phi), extended to every placement by rigid-motion invariance "
       "(dot_rot, triple_rot, binet, torsion_rigid_invariant → C18_v1), reversal keeps and mirroring negates the value; for tertiary_v2 "
       "the same computation gives −φ (v2_returns_neg_phi, v2_eq_neg_v1): the full claim is kept as C18_v2_full with a proved negation "
       "(C18_v2_full_false) and the true part as v2_returns_phi_partial. The −φ defect is a KNOWN FINDING (the two pinned tests fix opposite "
       "conventions); every other deviation (magnitude, range, laws, v1) is still reported. Props.C18Fn: Residue3D.chi_class regenerated from the source text; syn iff lo° < χ < hi° with the regenerated bounds, for every positive radians factor; nan has no class.",
  note="Float round-off, numpy cross/dot/norm and math.atan2 are outside the model (agreement demanded within 1e-9 on exactly representable "
       "rational inputs); that every non-degenerate quadruple is a rigidly moved canonical one is by construction, not proved; "
       "'A-form χ is anti' is checked on the corpus.",
  technique="Lean 4 proof over ℝ (Complex.arg, ring identities, rigid-motion invariance) + exact-rational twin vs both real functions on constructed quadruples and corpus torsions",
  ref="9/C18"),
 "C06": dict(
  text="Lean theorems (Props.C06) about a model of Mapping2D3D on abstract nucleotides and pair records (duplicated, reversed, "
       "dangling, multiplets): resolve_terminates, resolve_matching (≤ 1 partner), resolve_subset (only canonical input pairs), "
       "resolve_keeps_unconflicted — for ANY victim choice inside a conflict group; numbering_ok ('?' placeholders exactly at detected "
       "gaps, 1..N in file order), bpseq_valid, strands_concat, slices_concat, dot_bracket_faithful; extended rows: "
       "ext_rows_balanced_len, ext_rows_greedy_rows_are_matchings, ext_rows_encode_each_once (every distinct input pair exactly once under "
       "its class, with the row-allocation shape regenerated from the source and pinned by a bridge; the two-row variant is proved false "
       "on a witness). Bridges: canonical test, both scoring copies and both gap-rule copies agree, connectivity threshold 1.5·1.6. Props.C06Fn: Saenger.is_canonical, BasePair3D.score, BasePair3D.is_canonical and both copies of pair_scoring_function are regenerated from the source text and proved equal to Mapping.isCanonical / Mapping.pairScore and the regenerated score tables for all classes and ASCII letters.",
  note="Ties in the conflict-resolution sort that depend on Python set order are flagged by the model and compared by specification only; "
       "the level choice of the per-strand dot-bracket comes from the MILP solver (relational, via C01/C02); Lean reasons about tokens.",
  technique="Lean 4 proof (conflict-resolution loop invariant, numbering, row allocation) + functional/spec correspondence on corpus and synthetic structures × random pair lists",
  ref="9/C06"),
 "C09": dict(
  text="Lean theorems (Props.C09) about a model of parser_v2's PDB writer/reader and PDB⇄mmCIF row maps with fixed-point numbers: "
       "formatAtom_len80, formatTer_len80, field placement (formatAtom_fields); MAIN parseV2_formatAtom (WithinPdbLimits a → reading the "
       "written line gives back all 16 fields; 1–4 character names with the alignment rule, 2-letter elements, negative numbers, charge n±); "
       "writePdb_structure (MODEL/ENDMDL around every model, TER after every chain — with the writer's behaviour flag regenerated from "
       "the source; the pre-fix writer is proved to violate it on a two-row witness); pdb_pdb / pdb_cif_pdb / cif_pdb_cif round trips; "
       "bridges: reader slices = writer offsets = PDB column layout, widths and limits, mmCIF columns and null markers. Props.C09Splitter transports the round-trip and layout theorems to splitter.main: one file per model number (multiset partition of the rows), each PDB file = exactly one MODEL…ENDMDL block with a TER after every chain, reads back to that model's rows for every table within limits, C10 guarantees per model when fitting is needed (skipped ⇔ no fit exists). The splitter runs are compared file by file with the model (split.run), including mmCIF tables that need fitting per model. Props.C09Fn: the atom-name alignment rule of _format_pdb_atom_line is regenerated from the source text and proved equal to Pdb.atomNameFmt 4 4 (the rule inside formatAtom) for every name starting with an ASCII character.",
  note="Assumed and validated differentially: Python's ':8.3f' / ':6.2f' of the double nearest to k/1000 prints k/1000 and to_numeric reads "
       "it back; pandas dtypes; the mmcif tokeniser and quoting. mmCIF→mmCIF has no Lean model beyond null markers (correspondence only). "
       "Charge 0 is identified with absent; literal '?'/'.' values are outside the quantifier.",
  technique="Lean 4 proof (fixed-column format/parse inverse, document structure) + byte-level writer comparison and four round-trip paths through the real code",
  ref="9/C09"),
 "C10": dict(
  text="Lean theorems (Props.C10) about a model of can_write_pdb / fit_to_pdb: fit_id (already fitting ⇒ unchanged), "
       "fit_ok_satisfies_limits, fit_ok_preserves_rows (order, names, coordinates, all other fields), fit_chain_map_injective, "
       "fit_residue_map_injective_per_chain, fit_grouping_preserved, fit_refuses_iff (exact characterisation of the ValueError cases as "
       "read from the code, incl. the rows+chain-changes safeguard), fit_total (no other error), fit_then_write_read (via C09). "
       "Limits 99999 / 9999 / 62-letter chain alphabet are regenerated and pinned by bridges. can_write_pdb's PDB branch is regenerated as a switch (pdbAssumedToFit); bridge pdb_tables_are_tested; fit_ok_fits covers every format (negation kept for the legacy behaviour: not_fit_ok_fits_full_of_assumed). Props.C10Unifier models unifier.main (group-by, component renaming/filter/sort incl. the categorical sort behaviour, cross-file checks, removal, identifier vote, fit + write) and proves unifier_output_roundtrip (limits, bracketing, read-back), unifier_fit_guarantees, unifier_same_shape, unifier_keeps_coordinates; component order is proved only under the stated hypothesis, with a proved counter-example for the unconditional statement. The real unifier.main runs in-process on generated mixed PDB/mmCIF inputs with recording spies on fit_to_pdb/write_pdb/write_cif: C10's predicate on every fit call, limits on every written table, read-back, shape/coordinate/name checks on the written files, and table-level correspondence with the model (uni.run).",
  note="pandas behaviour (dtypes, groupby) is covered by the correspondence only; the soundness of the executable spec checker against "
       "the theorems is cross-checked with an independent Python evaluator, not proved.",
  technique="Lean 4 proof (first-seen renaming maps, limits) + correspondence on generated overflow tables (multi-character chains, >9999 residues, >99999 atoms, >62 chains)",
  ref="9/C10"),
 "C04": dict(
  text="Lean theorems (Props.C04) about an exact-rational model of find_stackings in which every decision is a polynomial sign condition: "
       "stackings_eq_filter (the list = sort ∘ label ∘ filter of the defining predicate over all residue pairs, with the signed file-order "
       "orientation of the centroid vector written out), stackings_once, stackings_sorted, stackings_lower_first, topology_label; over ℝ "
       "the angle clauses are equivalent to their polynomial forms (angle_normals_iff, angle_vector_iff, distance_iff) and the rational "
       "enclosures of cos²35°, cos²45° are PROVED to enclose (enclosures_hold, width ≤ 1e-15), giving model_sound / model_complete "
       "(every real stacking is listed or flagged undecided). Bridges: thresholds 6 Å / 35° / 45°, base-atom tables, normal atoms. Props.C04Fn: StackingTopology.reverse regenerated from the source text and proved equal to the table (involution fixing exactly inward/outward); angle_between_vectors evaluates acos inside its domain for every cosine incl. nan.",
  note="Float geometry (numpy), the KD-tree query and ordering by Python tuples are outside the model; agreement is demanded outside a "
       "1e-6 band around each threshold (undecided cases counted). The statement's centroid vector is read as c_i − c_j with i before j "
       "in file order (DESIGN §11). Residue keys assumed distinct; multi-model inputs with model=None not compared.",
  technique="Lean 4 proof (definition = filter; ℝ-level angle equivalences; proved cosine enclosures) + exact-rational model vs find_stackings on corpus, motions and threshold-straddling placements",
  ref="9/C04"),
 "C17": dict(
  text="Lean theorems (Props.C17) about an exact-rational model of find_clashes and the report of clashfinder.main: clashes_eq_filter "
       "(list = filter of d² ≤ (r_a + r_b + mp)² under the five options), clashes_once, clash_symmetric, kd_radius_sufficient (the KD-tree "
       "query radius covers every radius sum — decide over the regenerated radii), grid_shortcut_sound, residue_max_correct, "
       "chain_max_correct (printed maxima = maxima over the listed clashes; depends on a bridge regenerated from the source), "
       "csv_rows_eq_clashes, occupancy_literal / clashes_eq_spec. Props.C17Fn: AtomType.radius / matches and classify_clash regenerated from the source text and proved equal to Clash.radius, Clash.typed and the O3'–phosphate-oxygen rule.",
  note="Float distance and the SciPy KD-tree are outside the model (undecided band 1e-6); occupancy sums in stdout compared with "
       "tolerance 1e-9; metadata columns of the CSV come from the mmcif package.",
  technique="Lean 4 proof (definition = filter, maxima, radius sufficiency by decide) + exact-rational model vs find_clashes for all 32 option sets, main() stdout and CSV",
  ref="9/C17"),
 "C08": dict(
  text="Lean theorems (Props.C08) about a model of parser.py's reading pipeline (column slicer / mmCIF row decoder → duplicate filter → "
       "clash filter → model selection → residue grouping), parameterised by switches regenerated from the source: "
       "select_only_requested, select_default_first, dup_keeps_max_occupancy_first, clash_survivor, kept_is_sublist, no_atom_lost, "
       "group_preserves_order_and_fields, parseAtomV1_fields; the whole statement C08_full holds for the repaired configuration "
       "(full_of_fixed) and is proved FALSE for each missing switch (counter-examples by decide); present_code_verdict ties the verdict "
       "to the configuration read from the current source.",
  note="C08_full assumes the first model's records form a prefix of the table; parse∘format is proved for the slicer in general and for "
       "the digit formatting on concrete records only; Python int()/float() modelled for plain decimals; the mmcif tokeniser is trusted "
       "(the harness's own mmCIF emitter is validated against it on every document).",
  technique="Lean 4 proof (pipeline stages, counter-examples for the unrepaired configurations) + correspondence on generated PDB/mmCIF tables (multi-model, altlocs, null markers) and corpus files",
  ref="9/C08"),
 "C03": dict(
  text="Lean theorems (Props.C03): for EVERY processing order of the label multiset (so KD-tree set order and most_common tie-breaks are "
       "irrelevant) the edge-occupation stage is sound, exclusive and maximal (greedy_sound, greedy_exclusive, greedy_maximal, "
       "spec_of_sandwich); over ℝ the 50–130° clause is equivalent to (n·v)² < cos²50°·|n|²|v|² (angle_range_iff) with a rational "
       "enclosure of cos²50° PROVED to enclose (cosSq50_encloses), cis/trans is the sign of (v₁×v₂)·(v₂×v₃) (cis_iff), and the exact "
       "rational model is sound for the real-number conditions (model_*_sound). Bridges pin the regenerated chemistry tables and "
       "thresholds 4.0 Å / 50° / 130° / 2 and that each atom is listed once (points_nodup — the O2' doubling fixed in f3fb2f0). Props.C03Loop: find_pairs is also modelled FUNCTIONALLY (Model/FindPairs.lean: point order, look-up of atom/type/residue per point as the source does it (regenerated switch), candidates in ascending index order, the order-dependent consumption of donor → oxygen contacts with used_atoms, labels, most_common, greedy occupation, both sorts, merge_and_clean, Saenger). Proved: loop_refines_relational (the hydrogen bonds the loop collects are contacts of the relational model and contain every decided base-to-base contact), findPairs_meets_specPairs (on decided inputs the executable checker specPairs reports no failure on the functional model's own base-pair list), prefilter_exact (contacts = contactsAll: the bounding-ball pre-filter loses nothing). Function translator (Props.C03Fn): Residue3D.__lt__, Residue3D.find_atom, detect_cis_trans and the clamped argument of acos in angle_between_vectors are regenerated from the source text on every run (tools/py2lean.py) and proved equal to Pairs.resLt / findAtom / the decision structure of cisTri / clamp∈[-1,1] for all arguments and all behaviours of torsion_angle.",
  note="That the float / KD-tree stage hands the occupation stage a label multiset between 'base-to-base contacts' and 'all contacts' is "
       "carried by the relational correspondence (exact contact sets recomputed in Rat; contacts within 1e-6 of a threshold undecided), "
       "not by proof; O2' contacts count as support only, as the property says. The functional model is tied to the code by the FUNCTIONAL correspondence c03_loop: the three lists find_pairs returns, in order, must equal the model's whenever no decision quantity is inside the 1e-6 band; shape conditions of the refinement theorems: `Regular` (each atom listed once, every residue analysed and carrying an identity, no coincident atoms while the source keys its look-ups by coordinates — since the repair it keys them by point index).",
  technique="Lean 4 proof (greedy edge occupation for every order; ℝ-level angle/torsion equivalences; proved cos²50° enclosure) + relational + functional (whole loop, three lists in order) correspondence against exact contact sets on corpus, motions and threshold placements",
  ref="9/C03"),
 "C11": dict(
  text="Lean theorems (Props.C11): decide-checked facts about the regenerated tables — saenger_reverse_consistent (a pair and its reverse "
       "get the same Saenger class), saenger_present_iff_defined, lw_reverse_involutive/closed/swaps_edges — and about the assembly stage: "
       "pairs_sorted_nodup_oriented (sorted, no repeats, lower residue first, no self pairs), mergeClean_one_class_per_pair, "
       "mergeClean_rules (3∧5→4, 7∧9→8), bph_class_from_donor / bph_class_decided (class implied by the donor atoms in contact). The "
       "well-formedness specification is evaluated on the real extract_base_interactions output for every structure and model. Props.C11Loop / C03Loop: bph_br_sound (every recorded contact: base donor → named oxygen, different residues, within the distance band, class from bphClasses), used_atoms_exclusive, bph_br_output, specBph_holds (the executable checker specBph reports no failure on the functional model's lists). Props.C11Fn: LeontisWesthof.reverse/__lt__, Residue.chain/number/icode/name/__lt__/molecule_type, Residue3D.find_atom, detect_saenger and detect_bph_br_classification are regenerated from the source text and proved equal to Pairs.lwReverse, RKey.lt, Pairs.saenger and — for every letter, donor name, atom set and torsion oracle — to the lookup in the regenerated BPh table (bphClass_eq_table).",
  note="Participants ⊆ residues of the analysed model and the 4.0 Å donor→oxygen distance are checked on real outputs (exact rational "
       "re-derivation), not proved of the float code; write_csv/write_json rows are compared with the lists. The donor→oxygen clauses are proved of the functional model of find_pairs, which equals the code on decided inputs (c03_loop).",
  technique="Lean 4 proof by decide over regenerated tables + assembly-stage theorems + specification predicates on real annotations of all models",
  ref="9/C11"),
 "C15": dict(
  text="Lean theorems (Props.C15) about models of both reader generations on what the independent emitter (the C09 writer model) writes "
       "for an arbitrary atom table: line_level / document_level (reader v1 and the table-level reader extract exactly the fields of every "
       "row from the PDB text — MODEL/TER/ENDMDL/END, readlines — and from the mmCIF token table); v1_filters_identity and v2_grouping; MAIN "
       "readers_agree_pdb, readers_agree_cif, formats_agree: for every non-empty table within PDB limits that is a single conformer "
       "(decidable predicate singleConformer: no altloc, one model, no atom name twice in a residue, no two atoms within the clash "
       "distance, rows of a residue adjacent, one name per (chain, number, icode)) the residue-level reader does not raise and the four "
       "readings are permutations of one another with every identity once (same chain, number, insertion code, name, atom names, "
       "coordinates); readers_report_the_table; connectivity_same (the two is_connected are one function = both atoms present and O3'-P "
       "below 12/5 A; segments equal, and equal up to chain order over either reader's listing); chi_magnitude_agree (same four atoms for "
       "the standard names; equal magnitude whenever neither degenerate guard fires; |torsion2| = |torsion1| over R). The unconditional "
       "statements are proved FALSE of the code with witnesses (superposed atoms without altloc flag, non-adjacent rows, empty file; "
       "collinear chi atoms and differing guards) and the proved parts carry the _partial names. Bridges: both thresholds 1.5*1.6 = 12/5 on "
       "O3'/P, group-by columns, accessor columns, chi atom lists and residue classes, regenerated from tertiary.py / tertiary_v2.py on "
       "every run.",
  note="Modelled, not verified: the mmcif tokenizer (token table taken from it; the harness emitter is validated by re-reading), pandas "
       "groupby (one group per key, sorted, NaN last — checked as correspondence incl. the text order of auth_seq_id) and dtype coercions, "
       "float()/to_numeric of decimal text (exact decimals in the model; bit-equality of the two readers' floats is checked on every "
       "coordinate), numpy norm / arctan2 (agreement outside a 1e-6 band). Reader v1's one-letter residue name is modelled for "
       "one-character and D-prefixed names only. Reader identity of v1 = Residue3D.auth fields. Corpus structures are judged on the "
       "tables re-emitted by the independent emitter (as the quantifier says); the original files are run too and disagreements there are "
       "logged as observations.",
  technique="Lean 4 proof (text-level inverses of both readers on the emitter's output, group-by vs run-grouping on contiguous tables, "
            "permutation of residue lists, sort uniqueness for segments, torsion sign relation) + differential run of both real readers "
            "on generated tables in both formats (O3'-P straddling 2.4 A, glycosidic atoms) and on the single-conformer corpus",
  ref="9/C15, 14.8"),
 "C05": dict(
  text="Lean theorems (Props.C05, 66) about the exact-rational models of find_pairs (Pairs), find_stackings (Stacking) and of the two "
       "distance tests that decide strands and gaps (Connect): for EVERY rotation matrix with rational entries (rows orthonormal, det 1), "
       "every rational translation, every structure size and every parameter record, each decision function returns the same value on "
       "the moved structure — contacts_move, bcontacts_move (incl. torsion-dependent BPh/BR classes), modelLabels_move, modelPairs_move "
       "(labels → most_common order → greedy occupation → ranks → sort), specPairs_move / specBph_move (the C03 / C11 verdict on any "
       "reported list), stackings_move (the reported list is the moved list, element by element), undecided_move, connect_move, "
       "annotate_rigid_invariant; centroid_equivariant. They rest on algebra proved over an arbitrary commutative ring: dot_rot, cross_rot, "
       "cross_mirror, triple_rot, binet, det_sq. Converse sanity check: under det = −1 dot products, distances, the cis/trans test and "
       "the whole base-pair layer are unchanged (contacts_mirror) while triple products and the signed vector·normal product of the "
       "stacking test change sign (triple_mirror, torsionY_mirror, stacking_vector_mirror; stacking_chiral exhibits a stacking that "
       "vanishes in the mirror image, so properness cannot be dropped). Atom order: findAtom_perm (duplicate-free names) ⇒ contacts_perm, "
       "bcontacts_perm, modelPairs_perm, specPairs_perm, stackings_perm. Relabelling: any renaming that preserves the residue order and "
       "the same-residue test leaves the position-indexed results equal (contacts_relabel, modelLabels_relabel, rankOf_relabel, "
       "modelPairs_relabel, stackings_relabel). Tie-breaks: greedy_order_independent — under noTiedConflicts every order that "
       "Counter.most_common can produce gives the same sorted pair list; pairs_independent_of_arrival_order; tie_break_matters shows the "
       "hypothesis is needed. The REAL annotation and derived secondary structure of two presentations of one structure are compared "
       "whenever the model finds no decision quantity inside the 1e-6 band on either presentation. Props.C05Loop: findPairs_move / findPairs_perm / findPairs_relabel — all three result lists of the functional model of the WHOLE find_pairs loop (incl. the consumption order of competing contacts) are unchanged under every proper rational motion, atom order and order-preserving renaming.",
  note="The theorems are about the models; C03 / C04 / C11 tie the models to the code and harness/corr/c05.py ties the property itself "
       "(metamorphic run of the real annotator). Modelled, not verified: IEEE round-off of moved coordinates and numpy/scipy arithmetic "
       "(the exact invariance is transported to floats by the measured margins); the iteration order of the set returned by "
       "KDTree.query_pairs — it decided which of several contacts competing for one atom is consumed by BPh/BR detection (the defect "
       "repaired in /repo: the pairs are now processed in index order, which is presentation independent by construction of the point "
       "list; that argument is not formalised; the model exposes `contested` atoms and `tied` candidates per input and the harness "
       "concentrates on them). PDB-vs-mmCIF equality additionally rests on the readers (C08/C15) and on both one_letter_name derivations "
       "agreeing; it is checked on emitted documents, not proved. Rational rotations are dense in SO(3); real rotations are covered "
       "through the margins, not by a theorem over R. With gap detection the number of placeholders is a function of number differences "
       "by design, so only number shifts are compared there. Since the consumption order is the point-index order (after f72e0ea) it is part of the functional model (Model/FindPairs.lean, tied to the code by c03_loop) and covered by findPairs_move.",
  technique="Lean 4 proof (orthogonal-matrix algebra over commutative rings; one similarity relation StructSim instantiated for motion / "
            "atom order / relabelling; strong induction on counts for the greedy tie-break) + metamorphic differential run of the real "
            "annotator on corpus and synthetic structures under 24 exact axis permutations, random SO(3), ±500 A, atom shuffles, "
            "order-preserving renamings, PDB↔mmCIF emission, with exact-model margins",
  ref="9/C05, 14.8"),
}

NOT_YET = {}


CLI_NOTE = (" The command-line tool is an observation point of the correspondence run: annotator.main is run in forked children on "
            "structure texts x option sets (harness/corr/cli_annotator.py) and what it writes / prints is compared with what the library "
            "computes for the same file; only outputs this property reads are judged.")
HISTORY_NOTE = (" Inputs of the correspondence run include call histories (an object asked for other views first, results edited in place by "
                "the caller, other inputs handled earlier in the same process, forward and reverse order in fresh processes); every "
                "evaluation of the real code runs in forked workers of harness/core.fork_map (no shared pool state).")
EXTRA_NOTE = {
    "C03": CLI_NOTE, "C04": CLI_NOTE + " The stacking list inside extract_base_interactions is compared with find_stackings, also for pairs that are reported as base pairs too.",
    "C06": CLI_NOTE, "C07": CLI_NOTE, "C11": CLI_NOTE, "C16": CLI_NOTE, "C02": CLI_NOTE, "C18": CLI_NOTE,
    "C05": " annotator.main is run on the corpus entry that exists as PDB and as mmCIF (4qln); interaction table, BPSEQ and notation must be identical.",
    "C13": " motif_extractor.main is run under the solver configurations as well; the notation it prints is judged like a returned one.",
    "C19": " adapter.main is run on structure x FR3D listing x option sets (insertion-code siblings, generated listings); CSV / JSON / BPSEQ files are compared with the import functions' results.",
}


def main():
    props = [json.loads(l) for l in open(os.path.join(VERIF, "properties.jsonl"))]
    ids = [p["id"] for p in props]
    checks = []
    for pid in ids:
        if pid not in CHECKS:
            continue
        if not os.path.exists(os.path.join(VERIF, "harness", "corr", pid.lower() + ".py")):
            continue
        c = CHECKS[pid]
        checks.append({
            "property_id": pid,
            "quick_cmd": "./check %s quick" % pid,
            "thorough_cmd": "./check %s thorough" % pid,
            "evidence_file": "evidence/%s.json" % pid,
            "replay_cmd_template": "./check %s --replay {path}" % pid,
            "engine": "lean4-model+correspondence",
            "level_claimed": {"category": c.get("category", "proof"), "text": c["text"], "design_ref": "DESIGN.md section " + c["ref"]},
            "level_note": COMMON_NOTE + c["note"] + EXTRA_NOTE.get(pid, "") + HISTORY_NOTE,
            "technique": c["technique"],
        })
    claimed = {c["property_id"] for c in checks}
    na = [{"property_id": pid, "reason": NOT_YET.get(pid, "check under construction in this round (model/theorems/harness not integrated yet); see DESIGN.md section 9")}
          for pid in ids if pid not in claimed]
    man = {
        "version": 1,
        "setup_cmd": "cd lean && /venv/bin/python ../tools/gen_tables.py && lake build",
        "hooks": {"guard": "RNAPOLIS_VERIF", "enable": "no source hooks are needed: checks import rnapolis in-process from /repo/src (editable install) and read the sources with ast; ./check sets RNAPOLIS_VERIF=1",
                  "baseline_off_cmd": "cd /repo && /venv/bin/python -m pytest -ra -q -p no:cacheprovider --timeout=900 --continue-on-collection-errors",
                  "source_commits": [], "add_only": True},
        "engines": [{"name": "lean4-model+correspondence", "path": "check",
                     "serves_properties": sorted(claimed),
                     "kind_free_text": "Lean 4 theorems about executable models (lean/RnaVerif), models tied to /repo by regenerated tables (tools/gen_tables.py) and a differential correspondence harness (harness/) through a compiled line-protocol driver"}],
        "checks": checks,
        "notes": "See DESIGN.md and CONVENTIONS.md. Fixed defects and known findings: known_findings.json.",
        "not_applicable": na,
    }
    json.dump(man, open(os.path.join(VERIF, "MANIFEST.json"), "w"), indent=1, ensure_ascii=False)
    # root module imports every Props file that exists
    pdir = os.path.join(VERIF, "lean", "RnaVerif", "Props")
    mods = sorted(f[:-5] for f in os.listdir(pdir) if f.endswith(".lean"))
    root = ["-- root of the library (generated by tools/mk_manifest.py): everything `lake build` must check",
            "import RnaVerif.Driver.Proto"] + ["import RnaVerif.Props.%s" % m for m in mods]
    open(os.path.join(VERIF, "lean", "RnaVerif.lean"), "w").write("\n".join(root) + "\n")
    print("claimed:", sorted(claimed))


if __name__ == "__main__":
    main()

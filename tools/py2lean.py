"""py2lean — translator from a deliberately small, pure subset of Python to Lean 4 (core only).

Used by tools/gen/functions_py.py to regenerate lean/RnaVerif/Generated/Functions.lean from the *current*
source of whitelisted small functions of rnapolis on every run.  The emitted definitions are total,
computable, and written only in terms of `RnaVerif.Py` (Model/Py.lean), generated inductives (enums) and
generated structures (views of dataclasses).

Principle: WHITELIST.  Every AST node type, operator, builtin, method and type combination that is not
explicitly handled raises `Refuse`; the caller then reports the anchor `py2lean:<function>` as lost and keeps the
pinned definition.  Nothing is ever guessed.  The accepted subset is documented in WP_TR_NOTES.md.

Value domain / typing: the whitelist entry (FnSpec) declares the type of every parameter and of the result; the
translator type-checks every expression against the small type language below and refuses on any mismatch.

    ("int",) ("bool",) ("str",) ("str1",)  ("float",)  ("none",)
    ("enum", Name)  ("opt", T)  ("tup", (T, ...))  ("struct", Name)  ("list", T)  ("chars",)
    ("dict", K, V)  (constants only)        ("fn", (T, ...), R)  (oracles only)

"str1" is a string known to have at most one character (result of `s[i]`, `s[:1]`, a literal); "chars" is
`tuple(<str>)`.  "float" is `Py.PyFloat` (finite rational or nan).  A function declared `raises=True` is
translated to `… → Option R` where `none` means "the call raises"; one declared `raises=False` must be free
of every raising construct (indexing, `Enum[...]`, dict subscripts, attribute of an Optional, `None < x`, `raise`).
"""
import ast
import hashlib
import textwrap
from fractions import Fraction


class Refuse(Exception):
    """the function (or one construct in it) is outside the subset"""


INT, BOOL, STR, STR1, FLOAT, NONE, CHARS = ("int",), ("bool",), ("str",), ("str1",), ("float",), ("none",), ("chars",)


def Enum(n):
    return ("enum", n)


def Opt(t):
    return ("opt", t)


def Tup(*ts):
    return ("tup", tuple(ts))


def Struct(n):
    return ("struct", n)


def ListT(t):
    return ("list", t)


def Dict(k, v):
    return ("dict", k, v)


def Fn(args, ret):
    return ("fn", tuple(args), ret)


LEAN_RESERVED = {"at", "from", "end", "this", "fun", "let", "in", "if", "then", "else", "match", "with", "do", "where", "have",
                 "show", "by", "def", "theorem", "structure", "inductive", "instance", "class", "open", "namespace", "section",
                 "variable", "import", "deriving", "Type", "Prop", "Sort", "forall", "exists", "return", "for", "mut", "try",
                 "catch", "finally", "unless", "private", "protected", "partial", "unsafe", "macro", "syntax", "notation", "infix",
                 "prefix", "postfix", "set_option", "universe", "example", "abbrev", "axiom", "opaque", "some", "none", "true", "false",
                 "id", "max", "min", "not", "and", "or", "toString", "k", "Py"}


def lean_ident(name):
    out = name
    if out.startswith("_"):
        out = "u" + out
    if out in LEAN_RESERVED or not out.replace("_", "a").replace("'", "a").isalnum() or out[0].isdigit():
        out = out + "_"
    if not (out.replace("_", "a").isalnum() and out.isascii()):
        raise Refuse("identifier %r" % name)
    return out


def lean_str(s):
    out = []
    for ch in s:
        o = ord(ch)
        if ch == '"':
            out.append('\\"')
        elif ch == "\\":
            out.append("\\\\")
        elif ch == "\n":
            out.append("\\n")
        elif ch == "\t":
            out.append("\\t")
        elif 32 <= o < 127:
            out.append(ch)
        elif 0xD800 <= o <= 0xDFFF:
            raise Refuse("surrogate in string literal")
        elif o < 32 or o == 127:
            out.append("\\x%02x" % o)
        elif o <= 0xFFFF:
            out.append("\\u%04x" % o)
        else:
            out.append(ch)
    return '"' + "".join(out) + '"'


def lean_int(n):
    return "(%d : Int)" % n if n >= 0 else "(-%d : Int)" % -n


def lean_float(x):
    if isinstance(x, bool):
        raise Refuse("bool as float")
    if isinstance(x, int):
        fr = Fraction(x)
    else:
        if x != x or x in (float("inf"), float("-inf")):
            raise Refuse("non-finite float literal")
        fr = Fraction(repr(float(x)))
    n, d = fr.numerator, fr.denominator
    body = ("%d" % n if n >= 0 else "-%d" % -n) + ("" if d == 1 else " / %d" % d)
    return "(some (%s : Rat) : Py.PyFloat)" % body


class EnumInfo:
    def __init__(self, name, cls, props=None):
        import enum
        self.props = dict(props or {})
        if not (isinstance(cls, type) and issubclass(cls, enum.Enum)):
            raise Refuse("%s is not an Enum" % name)
        self.name = name
        self.cls = cls
        self.members = [(m.name, m.value) for m in cls]
        if len(cls.__members__) != len(self.members):
            raise Refuse("enum %s has aliases" % name)
        for special in ("__eq__", "__hash__", "__bool__", "__len__", "_missing_", "__getattr__", "name", "value"):
            if special in cls.__dict__ and special not in ("__hash__",):
                raise Refuse("enum %s overrides %s" % (name, special))
        self.value_ty = None
        if all(isinstance(v, str) for _, v in self.members):
            self.value_ty = STR
        elif all(isinstance(v, int) and not isinstance(v, bool) for _, v in self.members):
            self.value_ty = INT
        self.ctor = {n: lean_ident(n) for n, _ in self.members}

    def verify(self, world):
        import inspect
        from functools import cached_property
        for n, target in self.props.items():
            st = inspect.getattr_static(self.cls, n, None)
            spec = world.specs.get(target)
            if spec is None or not isinstance(st, (property, cached_property)):
                raise Refuse("%s.%s is not a translated property" % (self.name, n))
            f = st.fget if isinstance(st, property) else st.func
            if getattr(f, "__qualname__", None) != spec.qual:
                raise Refuse("%s.%s resolves to %s" % (self.name, n, getattr(f, "__qualname__", None)))

    def lean(self):
        L = self.name
        o = ["inductive %s where" % L]
        o += ["  | %s" % self.ctor[n] for n, _ in self.members]
        o.append("deriving DecidableEq, Repr, Inhabited\n")
        o.append("def %s.all : List %s := [%s]\n" % (L, L, ", ".join(".%s" % self.ctor[n] for n, _ in self.members)))
        o.append("/-- `.name` of the member -/\ndef %s.name : %s → String" % (L, L))
        o += ["  | .%s => %s" % (self.ctor[n], lean_str(n)) for n, _ in self.members]
        o.append("")
        if self.value_ty is not None:
            o.append("/-- `.value` of the member -/\ndef %s.value : %s → %s" % (L, L, "String" if self.value_ty == STR else "Int"))
            o += ["  | .%s => %s" % (self.ctor[n], lean_str(v) if self.value_ty == STR else lean_int(v)) for n, v in self.members]
            o.append("")
        o.append("/-- `%s[s]`: lookup by member NAME, `none` = KeyError -/\ndef %s.ofName? (s : String) : Option %s :=\n"
                 "  %s.all.find? (fun m => m.name == s)\n" % (L, L, L, L))
        o.append("theorem %s.mem_all (m : %s) : m ∈ %s.all := by cases m <;> decide\n" % (L, L, L))
        return "\n".join(o)


class StructInfo:
    """A view of a (frozen data)class: the attributes the translated functions read.
    fields: [(pyname, type)] verified to be dataclass fields (or `abstract` cached properties: values computed
    elsewhere, taken as data); props: {pyname: FnSpec.lean} properties translated as functions of the object;
    methods: {pyname: FnSpec.lean}."""

    def __init__(self, name, cls, fields, base=None, props=None, methods=None, abstract=()):
        self.name, self.cls, self.fields, self.base = name, cls, list(fields), base
        self.props, self.methods, self.abstract = dict(props or {}), dict(methods or {}), set(abstract)

    def verify(self, world):
        import dataclasses
        import inspect
        from functools import cached_property
        if not dataclasses.is_dataclass(self.cls):
            raise Refuse("%s is not a dataclass" % self.name)
        if not self.cls.__dataclass_params__.frozen:
            raise Refuse("%s is not frozen (attribute reads would not be pure)" % self.name)
        for special in ("__getattr__", "__getattribute__"):
            if any(special in k.__dict__ for k in self.cls.__mro__[:-1]):
                raise Refuse("%s defines %s" % (self.name, special))
        dfields = {f.name for f in dataclasses.fields(self.cls)}
        for n, _ in self.fields:
            st = inspect.getattr_static(self.cls, n, None)
            if n in self.abstract:
                if not isinstance(st, (property, cached_property)):
                    raise Refuse("%s.%s is not a property any more" % (self.name, n))
                continue
            if n not in dfields or isinstance(st, (property, cached_property)):
                raise Refuse("%s.%s is not a plain dataclass field" % (self.name, n))
        for n, target in list(self.props.items()) + list(self.methods.items()):
            st = inspect.getattr_static(self.cls, n, None)
            spec = world.specs.get(target)
            if spec is None:
                raise Refuse("%s.%s: no whitelist entry %s" % (self.name, n, target))
            f = st.fget if isinstance(st, property) else getattr(st, "func", st)
            f = getattr(f, "__wrapped__", f)
            qn = getattr(f, "__qualname__", None)
            if qn != spec.qual:
                raise Refuse("%s.%s resolves to %s, not to %s" % (self.name, n, qn, spec.qual))
            if n in self.props and not isinstance(st, (property, cached_property)):
                raise Refuse("%s.%s is not a property" % (self.name, n))
            if n in self.methods and isinstance(st, (property, cached_property, staticmethod, classmethod)):
                raise Refuse("%s.%s is not a plain method" % (self.name, n))

    def all_fields(self, world):
        out = []
        if self.base:
            out += world.structs[self.base].all_fields(world)
        return out + self.fields

    def lean(self, world):
        hdr = "structure %s" % self.name + (" extends %s" % self.base if self.base else "") + " where"
        o = [hdr]
        for n, t in self.fields:
            o.append("  %s : %s" % (lean_ident(n), lean_type(t)))
        if not self.fields:
            o[0] = hdr[:-6]
        if all(_first_order(t) for _, t in self.all_fields(world)):
            o.append("deriving DecidableEq, Repr")
        return "\n".join(o) + "\n"


def _first_order(t):
    if t[0] == "fn":
        return False
    if t[0] in ("opt", "list"):
        return _first_order(t[1])
    if t[0] == "tup":
        return all(_first_order(x) for x in t[1])
    return True


def lean_type(t, paren=False):
    k = t[0]
    if k == "int":
        return "Int"
    if k == "bool":
        return "Bool"
    if k in ("str", "str1"):
        return "String"
    if k == "float":
        return "Py.PyFloat"
    if k == "chars":
        return "(List Char)" if paren else "List Char"
    if k in ("enum", "struct"):
        return t[1]
    if k == "opt":
        s = "Option %s" % lean_type(t[1], True)
    elif k == "list":
        s = "List %s" % lean_type(t[1], True)
    elif k == "tup":
        s = " × ".join(lean_type(x, True) for x in t[1])
    elif k == "dict":
        s = "List (%s × %s)" % (lean_type(t[1], True), lean_type(t[2], True))
    elif k == "fn":
        s = " → ".join([lean_type(x, True) for x in t[1]] + [lean_type(t[2], True)])
    else:
        raise Refuse("type %r" % (t,))
    return "(" + s + ")" if paren else s


class FnSpec:
    """One whitelist entry.
    lean      name of the emitted definition (namespace RnaVerif.Gen.Fn)
    module    rnapolis module name; qual: qualified name of the function ('Cls.meth', 'f', 'Cls.meth.inner')
    params    types of the positional parameters, by position (python names are read from the source)
    ret       result type; raises: translate into Option (none = raises)
    oracles   {dotted python name: (lean parameter name, Fn type)} calls left abstract: they become leading explicit
              parameters of the Lean definition (assumed to return normally on the argument types given)
    consts    {python expression text: (type, getter(module) -> live value)} module / class level constants
    calls     {python function name: whitelist entry} calls of other translated module-level functions
    fragment  optional callable(fn_ast) -> (params [(pyname)], body statements): translate a fragment of a larger function
    serves    property ids"""

    def __init__(self, lean, module, qual, params, ret, raises=False, oracles=None, consts=None, calls=None, fragment=None,
                 serves=(), doc=""):
        self.lean, self.module, self.qual, self.params, self.ret, self.raises = lean, module, qual, list(params), ret, raises
        self.oracles, self.consts, self.calls, self.fragment = dict(oracles or {}), dict(consts or {}), dict(calls or {}), fragment
        self.serves, self.doc = tuple(serves), doc


class World:
    def __init__(self):
        self.enums = {}      # python class name -> EnumInfo
        self.structs = {}    # name -> StructInfo
        self.specs = {}      # lean name -> FnSpec
        self.done = {}       # lean name -> FnSpec successfully translated (or pinned) so far

    def enum_of_class(self, cls):
        for e in self.enums.values():
            if e.cls is cls:
                return e
        return None

    def is_sub(self, a, b):
        """struct a is b or extends b"""
        while a is not None:
            if a == b:
                return True
            a = self.structs[a].base
        return False

    def upcast(self, text, a, b):
        while a != b:
            base = self.structs[a].base
            text = "(%s).to%s" % (text, base)
            a = base
        return text


def strip_doc(fn):
    body = fn.body
    if body and isinstance(body[0], ast.Expr) and isinstance(body[0].value, ast.Constant) and isinstance(body[0].value.value, str):
        body = body[1:]
    return body


def ast_sha(node):
    """sha256 of the AST with docstrings, positions and formatting removed"""
    node = ast.parse(ast.unparse(node))

    class D(ast.NodeTransformer):
        def visit_FunctionDef(self, n):
            self.generic_visit(n)
            n.body = strip_doc(n) or [ast.Pass()]
            return n
    node = D().visit(node)
    return hashlib.sha256(ast.dump(node, include_attributes=False).encode()).hexdigest()[:16]


def find_def(tree, qual):
    node = tree
    for p in qual.split("."):
        found = [ch for ch in ast.walk(node) if ch is not node and isinstance(ch, (ast.FunctionDef, ast.ClassDef)) and ch.name == p
                 and _direct_child(node, ch)]
        if len(found) != 1:
            return None
        node = found[0]
    return node if isinstance(node, ast.FunctionDef) else None


def _direct_child(parent, ch):
    """ch is defined directly in parent's body (for functions: anywhere in the body but not inside a nested def/class)"""
    if isinstance(parent, (ast.Module, ast.ClassDef)):
        return ch in parent.body
    stack = list(parent.body)
    while stack:
        n = stack.pop()
        if n is ch:
            return True
        if isinstance(n, (ast.FunctionDef, ast.ClassDef, ast.Lambda)):
            continue
        stack.extend(ast.iter_child_nodes(n))
    return False


# =====================================================================================================
# expressions

class E:
    """translated expression: Lean text of type `ty` (eff=False) or `Option ty` (eff=True, none = raises)"""

    def __init__(self, text, ty, eff=False, parts=None):
        self.text, self.ty, self.eff, self.parts = text, ty, eff, parts


class Env:
    def __init__(self, vars=None, narrow=None):
        self.vars = dict(vars or {})       # python name -> (lean name, type)
        self.narrow = dict(narrow or {})   # unparsed path -> (lean name, type)

    def bind(self, py, lean, ty):
        e = Env(self.vars, {p: v for p, v in self.narrow.items() if p != py and not p.startswith(py + ".")})
        e.vars[py] = (lean, ty)
        return e

    def narrowed(self, path, lean, ty):
        e = Env(self.vars, self.narrow)
        e.narrow[path] = (lean, ty)
        return e

    def without(self, py):
        e = Env(self.vars, {p: v for p, v in self.narrow.items() if p != py and not p.startswith(py + ".")})
        e.vars.pop(py, None)
        return e


def ind(s, n=2):
    return "\n".join((" " * n + l if l else l) for l in s.split("\n"))


EQ_ABLE = {"int", "bool", "str", "str1", "enum", "chars"}


def eq_able(t):
    if t[0] in EQ_ABLE:
        return True
    if t[0] == "opt":
        return eq_able(t[1])
    if t[0] == "tup":
        return all(eq_able(x) for x in t[1])
    return False


def same(a, b):
    n = lambda t: STR if t == STR1 else (("opt", n(t[1])) if t[0] == "opt" else (("tup", tuple(n(x) for x in t[1])) if t[0] == "tup" else t))
    return n(a) == n(b)


def join_ty(a, b):
    if same(a, b):
        return STR if (a in (STR, STR1) and a != b) else a
    if a == NONE and b[0] == "opt":
        return b
    if b == NONE and a[0] == "opt":
        return a
    if a == NONE and b != NONE:
        return Opt(b)
    if b == NONE and a != NONE:
        return Opt(a)
    if a[0] == "opt" and same(a[1], b):
        return a
    if b[0] == "opt" and same(b[1], a):
        return b
    if {a, b} == {INT, FLOAT}:
        return FLOAT
    raise Refuse("no common type for %r and %r" % (a, b))


class FnTranslator:
    def __init__(self, world, spec, module, fn_ast):
        self.w, self.spec, self.mod, self.fn = world, spec, module, fn_ast
        self.counter = 0
        self.const_defs = []     # (lean name, lean type, lean value text)
        self.const_cache = {}
        self.oracle_names = {}

    def fresh(self, stem="t"):
        self.counter += 1
        return "%s%d" % (stem, self.counter)

    # ---------------------------------------------------------------- effects

    def bind_all(self, es, build):
        """es: list of E; build(list of pure texts) -> E.  Effectful operands are evaluated left to right
        (Option.bind); pure operands cannot raise, so their position does not matter."""
        names, binds = [], []
        for e in es:
            if e.eff:
                v = self.fresh()
                binds.append((v, e.text))
                names.append(v)
            else:
                names.append(e.text)
        r = build(names)
        if not binds:
            return r
        body = r.text if r.eff else "some (%s)" % r.text
        for v, t in reversed(binds):
            body = "(%s).bind fun %s => %s" % (t, v, body)
        return E("(%s)" % body, r.ty, True)

    def coerce(self, e, ty):
        if same(e.ty, ty):
            return e
        if e.eff:
            return self.bind_all([e], lambda t: self.coerce(E(t[0], e.ty), ty))
        if ty[0] == "opt":
            if e.ty == NONE:
                return E("(none : %s)" % lean_type(ty), ty)
            if e.ty[0] == "opt":
                raise Refuse("cannot coerce %r to %r" % (e.ty, ty))
            inner = self.coerce(e, ty[1])
            return E("(some %s)" % par(inner.text), ty)
        if ty == FLOAT and e.ty == INT:
            return E("(Py.fOfInt %s)" % par(e.text), FLOAT)
        raise Refuse("cannot coerce %r to %r" % (e.ty, ty))

    # ---------------------------------------------------------------- constants

    def const_literal(self, v, ty):
        k = ty[0]
        if k == "int" and isinstance(v, int) and not isinstance(v, bool):
            return lean_int(v)
        if k == "bool" and isinstance(v, bool):
            return "true" if v else "false"
        if k in ("str", "str1") and isinstance(v, str):
            return lean_str(v)
        if k == "float" and isinstance(v, (int, float)) and not isinstance(v, bool):
            return lean_float(v)
        if k == "enum":
            info = self.w.enums.get(ty[1])
            if info is not None and isinstance(v, info.cls):
                return "%s.%s" % (info.name, info.ctor[v.name])
        if k == "opt":
            return "none" if v is None else "(some %s)" % self.const_literal(v, ty[1])
        if k == "tup" and isinstance(v, tuple) and len(v) == len(ty[1]):
            return "(" + ", ".join(self.const_literal(x, t) for x, t in zip(v, ty[1])) + ")"
        if k == "list" and isinstance(v, (list, tuple, set, frozenset)):
            items = list(v)
            if isinstance(v, (set, frozenset)):
                items = sorted(items, key=repr)
            return "[" + ", ".join(self.const_literal(x, ty[1]) for x in items) + "]"
        if k == "dict" and isinstance(v, dict):
            return "[" + ",\n   ".join("(%s, %s)" % (self.const_literal(a, ty[1]), self.const_literal(b, ty[2])) for a, b in v.items()) + "]"
        raise Refuse("constant %r does not have type %r" % (v, ty))

    def const_expr(self, key):
        if key in self.const_cache:
            return self.const_cache[key]
        ty, getter = self.spec.consts[key]
        val = getter(self.mod)
        text = self.const_literal(val, ty)
        if ty[0] in ("dict", "list"):
            name = "%s_c%d" % (self.spec.lean, len(self.const_defs) + 1)
            self.const_defs.append((name, lean_type(ty), text, key))
            text = name
        e = E(text, ty)
        self.const_cache[key] = e
        return e

    # ---------------------------------------------------------------- name resolution

    def enum_class(self, n, env):
        """AST node naming a registered enum class (not shadowed by a local) -> EnumInfo | None"""
        if isinstance(n, ast.Name) and n.id not in env.vars:
            obj = getattr(self.mod, n.id, None)
            if obj is not None:
                return self.w.enum_of_class(obj)
        return None

    def dotted(self, n):
        if isinstance(n, ast.Name):
            return n.id
        if isinstance(n, ast.Attribute):
            d = self.dotted(n.value)
            return None if d is None else d + "." + n.attr
        return None

    def path_of(self, n, env):
        """narrowable path: a local/parameter name, possibly followed by plain struct fields"""
        if isinstance(n, ast.Name):
            return n.id if n.id in env.vars else None
        if isinstance(n, ast.Attribute):
            p = self.path_of(n.value, env)
            if p is None:
                return None
            try:
                base = self.expr(n.value, env)
            except Refuse:
                return None
            if base.eff or base.ty[0] != "struct":
                return None
            sname, ok = base.ty[1], False
            while sname is not None:      # plain fields, and translated properties (pure functions of a frozen object)
                st = self.w.structs[sname]
                ok = ok or n.attr in dict(st.fields) or n.attr in st.props
                sname = st.base
            return p + "." + n.attr if ok else None
        return None

    # ---------------------------------------------------------------- expressions

    def expr(self, n, env):
        key = ast.unparse(n)
        if key in self.spec.consts and not (isinstance(n, ast.Name) and n.id in env.vars):
            return self.const_expr(key)
        if isinstance(n, (ast.Name, ast.Attribute)) and key in env.narrow:
            lean, ty = env.narrow[key]
            return E(lean, ty)
        m = getattr(self, "x_" + type(n).__name__, None)
        if m is None:
            raise Refuse("expression %s" % type(n).__name__)
        return m(n, env)

    def x_Name(self, n, env):
        if n.id in env.vars:
            lean, ty = env.vars[n.id]
            return E(lean, ty)
        raise Refuse("free name %r" % n.id)

    def x_Constant(self, n, env):
        v = n.value
        if v is None:
            return E("none", NONE)
        if isinstance(v, bool):
            return E("true" if v else "false", BOOL)
        if isinstance(v, int):
            return E(lean_int(v), INT)
        if isinstance(v, float):
            return E(lean_float(v), FLOAT)
        if isinstance(v, str):
            return E(lean_str(v), STR1 if len(v) <= 1 else STR)
        raise Refuse("constant %r" % (v,))

    def x_Attribute(self, n, env):
        info = self.enum_class(n.value, env)
        if info is not None:
            if n.attr in info.ctor:
                return E("%s.%s" % (info.name, info.ctor[n.attr]), Enum(info.name))
            raise Refuse("%s.%s is not a member" % (info.name, n.attr))
        b = self.expr(n.value, env)
        if b.ty[0] == "opt":   # attribute of an Optional: AttributeError when None
            b = self.join_eff(b)
        return self.bind_all([b], lambda t: self.attr_of(t[0], b.ty, n.attr))

    def join_eff(self, b):
        """an Optional value read as 'its content, or raise'"""
        inner = b.ty[1]
        if b.eff:
            return E("((%s).bind id)" % b.text, inner, True)
        return E(b.text, inner, True)

    def attr_of(self, text, ty, attr):
        if ty[0] == "enum":
            info = self.w.enums[ty[1]]
            if attr == "name":
                return E("(%s).name" % text, STR)
            if attr == "value" and info.value_ty is not None:
                return E("(%s).value" % text, info.value_ty)
            if attr in info.props:
                return self.call_translated(info.props[attr], [E(text, ty)])
            raise Refuse("enum attribute %s" % attr)
        if ty[0] == "struct":
            sname = ty[1]
            while sname is not None:
                s = self.w.structs[sname]
                if attr in dict(s.fields):
                    return E("(%s).%s" % (self.w.upcast(text, ty[1], sname), lean_ident(attr)), dict(s.fields)[attr])
                if attr in s.props:
                    return self.call_translated(s.props[attr], [E(text, ty)])
                sname = s.base
            raise Refuse("attribute %s of %s is not in the view" % (attr, ty[1]))
        raise Refuse("attribute %s of %r" % (attr, ty))

    def call_translated(self, lean_name, args):
        spec = self.w.done.get(lean_name)
        if spec is None:
            raise Refuse("callee %s is not (yet) translated" % lean_name)
        if spec.oracles:
            raise Refuse("callee %s has oracles" % lean_name)
        if len(args) != len(spec.params):
            raise Refuse("arity of %s" % lean_name)
        args = [self.coerce_arg(a, t) for a, t in zip(args, spec.params)]
        if spec.raises and not self.spec.raises:
            raise Refuse("callee %s may raise" % lean_name)
        return self.bind_all(args, lambda ts: E("(%s %s)" % (lean_name, " ".join(par(t) for t in ts)), spec.ret, spec.raises))

    def coerce_arg(self, a, t):
        if a.ty[0] == "struct" and t[0] == "struct" and self.w.is_sub(a.ty[1], t[1]):
            if a.eff:
                return self.bind_all([a], lambda ts: E(self.w.upcast(ts[0], a.ty[1], t[1]), t))
            return E(self.w.upcast(a.text, a.ty[1], t[1]), t)
        return self.coerce(a, t)

    def x_Tuple(self, n, env):
        if not n.elts:
            raise Refuse("empty tuple")
        parts = [self.expr(e, env) for e in n.elts]
        if any(p.ty == NONE for p in parts):
            raise Refuse("None inside a tuple")
        ty = Tup(*[p.ty for p in parts])
        if len(parts) == 1:
            raise Refuse("1-tuple")
        r = self.bind_all(parts, lambda ts: E("(" + ", ".join(ts) + ")", ty))
        if not r.eff:
            r.parts = parts
        return r

    def x_Dict(self, n, env):
        """dict literal used as a lookup table: literal / enum-member keys (pairwise different), pure values"""
        if not n.keys or any(k is None for k in n.keys):
            raise Refuse("empty dict literal / ** unpacking")
        ks = [self.expr(k, env) for k in n.keys]
        vs = [self.expr(v, env) for v in n.values]
        for k, kn in zip(ks, n.keys):
            closed = isinstance(kn, ast.Constant) or (isinstance(kn, ast.Attribute) and self.enum_class(kn.value, env) is not None) \
                or (isinstance(kn, ast.Tuple) and all(isinstance(x, ast.Constant) for x in kn.elts))
            if k.eff or not closed or not eq_able(k.ty) or k.ty[0] == "opt":
                raise Refuse("dict literal key that is not a literal")
        if len({ast.unparse(k) for k in n.keys}) != len(n.keys):
            raise Refuse("dict literal with a repeated key")
        if any(v.eff for v in vs):
            raise Refuse("dict literal value that may raise")
        kt, vt = ks[0].ty, vs[0].ty
        for k in ks[1:]:
            kt = join_ty(kt, k.ty)
        for v in vs[1:]:
            vt = join_ty(vt, v.ty)
        if kt[0] == "opt" or vt == NONE:
            raise Refuse("dict literal typing")
        items = ", ".join("(%s, %s)" % (self.coerce(k, kt).text, self.coerce(v, vt).text) for k, v in zip(ks, vs))
        return E("([%s] : %s)" % (items, lean_type(Dict(kt, vt))), Dict(kt, vt))

    def x_JoinedStr(self, n, env):
        parts = []
        for v in n.values:
            if isinstance(v, ast.Constant) and isinstance(v.value, str):
                parts.append(E(lean_str(v.value), STR))
            elif isinstance(v, ast.FormattedValue) and v.conversion == -1 and v.format_spec is None:
                e = self.expr(v.value, env)
                if e.ty in (STR, STR1):
                    parts.append(e)
                elif e.ty == INT:
                    parts.append(self.bind_all([e], lambda t: E("(Py.strOfInt %s)" % par(t[0]), STR)))
                else:
                    raise Refuse("f-string field of type %r" % (e.ty,))
            else:
                raise Refuse("f-string with conversion or format spec")
        if not parts:
            return E('""', STR1)
        return self.bind_all(parts, lambda ts: E("(" + " ++ ".join(ts) + ")", STR))

    def x_IfExp(self, n, env):
        a0, b0 = self.expr(n.body, env), self.expr(n.orelse, env)   # for the common type only
        ty = join_ty(a0.ty, b0.ty)
        tree = self.cond_tree(n.test, env, lambda e: self.coerce(self.expr(n.body, e), ty),
                              lambda e: self.coerce(self.expr(n.orelse, e), ty))
        eff = tree.has_eff(lambda x: x.eff)
        text = tree.render(lambda x: x.text if (x.eff or not eff) else "some (%s)" % x.text, lambda: "none")
        return E(text, ty, eff)

    def x_UnaryOp(self, n, env):
        if isinstance(n.op, ast.Not):
            c = self.cond(n.operand, env)
            return self.bind_all([c], lambda t: E("(!%s)" % par(t[0]), BOOL))
        if isinstance(n.op, ast.USub):
            if isinstance(n.operand, ast.Constant) and isinstance(n.operand.value, (int, float)) and not isinstance(n.operand.value, bool):
                v = n.operand.value
                return E(lean_int(-v), INT) if isinstance(v, int) else E(lean_float(-v), FLOAT)
            e = self.expr(n.operand, env)
            if e.ty == INT:
                return self.bind_all([e], lambda t: E("(-%s)" % par(t[0]), INT))
            if e.ty == FLOAT:
                return self.bind_all([e], lambda t: E("(Py.fNeg %s)" % par(t[0]), FLOAT))
        raise Refuse("unary operator")

    def x_BinOp(self, n, env):
        a, b = self.expr(n.left, env), self.expr(n.right, env)
        op = type(n.op)
        if a.ty == INT and b.ty == INT:
            if op in (ast.Add, ast.Sub, ast.Mult):
                sym = {ast.Add: "+", ast.Sub: "-", ast.Mult: "*"}[op]
                return self.bind_all([a, b], lambda t: E("(%s %s %s)" % (t[0], sym, t[1]), INT))
            if op in (ast.FloorDiv, ast.Mod) and isinstance(n.right, ast.Constant) and isinstance(n.right.value, int) \
                    and not isinstance(n.right.value, bool) and n.right.value > 0:
                f = "Int.fdiv" if op is ast.FloorDiv else "Int.fmod"
                return self.bind_all([a, b], lambda t: E("(%s %s %s)" % (f, par(t[0]), par(t[1])), INT))
        if a.ty in (STR, STR1) and b.ty in (STR, STR1) and op is ast.Add:
            return self.bind_all([a, b], lambda t: E("(%s ++ %s)" % (t[0], t[1]), STR))
        raise Refuse("binary operator %s on %r, %r" % (op.__name__, a.ty, b.ty))

    def x_BoolOp(self, n, env):
        vals = [self.expr(v, env) for v in n.values]
        if all(v.ty == BOOL for v in vals):
            return self.bool_chain(isinstance(n.op, ast.And), vals)
        if isinstance(n.op, ast.Or) and len(vals) == 2 and not vals[1].eff:
            a, b = vals
            if a.ty == Opt(STR) and b.ty in (STR, STR1):
                return self.bind_all([a], lambda t: E("(Py.orStr %s %s)" % (par(t[0]), par(b.text)), STR))
            if a.ty in (STR, STR1) and b.ty in (STR, STR1):
                return self.bind_all([a], lambda t: E("(if (%s).toList.isEmpty then %s else %s)" % (t[0], b.text, t[0]), STR))
        raise Refuse("and/or on non-boolean operands %r" % ([v.ty for v in vals],))

    def bool_chain(self, is_and, vals):
        """short-circuit chain of Bool operands, some of which may raise"""
        if len(vals) == 1:
            return vals[0]
        head, rest = vals[0], self.bool_chain(is_and, vals[1:])
        sym = "&&" if is_and else "||"
        if not rest.eff:
            return self.bind_all([head], lambda t: E("(%s %s %s)" % (t[0], sym, rest.text), BOOL))
        # the right part may raise: it is evaluated only when the left part does not decide
        def build(t):
            if is_and:
                return E("(if %s then %s else some false)" % (t[0], rest.text), BOOL, True)
            return E("(if %s then some true else %s)" % (t[0], rest.text), BOOL, True)
        return self.bind_all([head], build)

    # ---------------------------------------------------------------- truthiness

    def cond(self, n, env):
        """expression in a boolean position -> Bool E (truthiness for str / int / Optional of those)"""
        if isinstance(n, ast.BoolOp):
            return self.bool_chain(isinstance(n.op, ast.And), [self.cond(v, env) for v in n.values])
        if isinstance(n, ast.UnaryOp) and isinstance(n.op, ast.Not):
            c = self.cond(n.operand, env)
            return self.bind_all([c], lambda t: E("(!%s)" % par(t[0]), BOOL))
        e = self.expr(n, env)
        return self.bind_all([e], lambda t: E(self.truthy(t[0], e.ty), BOOL))

    def truthy(self, text, ty):
        if ty == BOOL:
            return text
        if ty in (STR, STR1):
            return "(!(%s).toList.isEmpty)" % text
        if ty == INT:
            return "(%s != 0)" % text
        if ty[0] == "opt" and ty[1][0] in ("str", "str1", "int", "bool"):
            v = self.fresh("v")
            return "(match %s with | some %s => %s | none => false)" % (text, v, self.truthy(v, ty[1]))
        if ty[0] == "opt" and ty[1][0] in ("enum",):
            return "(%s).isSome" % text
        raise Refuse("truthiness of %r" % (ty,))

    # ---------------------------------------------------------------- decision trees (if / conditional expression)

    def is_none_test(self, n, env):
        """`X is None` / `X is not None` on a narrowable Optional path -> (path, expr E, positive) | None"""
        if isinstance(n, ast.Compare) and len(n.ops) == 1 and isinstance(n.ops[0], (ast.Is, ast.IsNot)):
            l, r = n.left, n.comparators[0]
            if isinstance(l, ast.Constant) and l.value is None:
                l, r = r, l
            if isinstance(r, ast.Constant) and r.value is None:
                path = self.path_of(l, env)
                if path is not None and path not in env.narrow:
                    e = self.expr(l, env)
                    if e.ty[0] == "opt" and not e.eff:
                        return path, e, isinstance(n.ops[0], ast.IsNot)
        return None

    def needs_split(self, n, env):
        if isinstance(n, ast.BoolOp):
            return any(self.needs_split(v, env) for v in n.values)
        if isinstance(n, ast.UnaryOp) and isinstance(n.op, ast.Not):
            return self.needs_split(n.operand, env)
        if self.is_none_test(n, env) is not None:
            return True
        try:
            return self.cond(n, env).eff
        except Refuse:
            return True   # may become translatable once an earlier operand has narrowed a path

    def cond_tree(self, n, env, tf, ff):
        """decision tree for test `n`: tf(env') / ff(env') build the leaves; `and` / `or` / `not` are desugared
        structurally (short-circuit) exactly when an operand narrows an Optional or may raise"""
        if isinstance(n, ast.BoolOp) and self.needs_split(n, env):
            first, rest = n.values[0], n.values[1:]
            restn = rest[0] if len(rest) == 1 else ast.BoolOp(op=n.op, values=rest)
            if isinstance(n.op, ast.And):
                return self.cond_tree(first, env, lambda e: self.cond_tree(restn, e, tf, ff), ff)
            return self.cond_tree(first, env, tf, lambda e: self.cond_tree(restn, e, tf, ff))
        if isinstance(n, ast.UnaryOp) and isinstance(n.op, ast.Not) and self.needs_split(n.operand, env):
            return self.cond_tree(n.operand, env, ff, tf)
        t = self.is_none_test(n, env)
        if t is not None:
            path, e, positive = t
            v = self.fresh(lean_ident(path.split(".")[-1]).rstrip("_") + "_")
            some_env = env.narrowed(path, v, e.ty[1])
            if positive:
                return Tree("mopt", scrut=e.text, var=v, t=tf(some_env), f=ff(env))
            return Tree("mopt", scrut=e.text, var=v, t=ff(some_env), f=tf(env))
        c = self.cond(n, env)
        return Tree("itee" if c.eff else "ite", c=c.text, t=tf(env), f=ff(env))

    # ---------------------------------------------------------------- comparisons

    def x_Compare(self, n, env):
        operands = [n.left] + list(n.comparators)
        if len(n.ops) == 1:
            return self.compare1(n.ops[0], n.left, n.comparators[0], env)
        for op in n.ops:
            if not isinstance(op, (ast.Lt, ast.LtE, ast.Gt, ast.GtE, ast.Eq, ast.NotEq)):
                raise Refuse("chained %s" % type(op).__name__)
        es = [self.expr(o, env) for o in operands]
        if any(e.eff for e in es[2:]):
            raise Refuse("comparison chain whose later operands may raise")

        def build(ts):
            ps = [E(t, e.ty, False, e.parts) for t, e in zip(ts, es)]
            parts = [self.cmp(op, ps[i], ps[i + 1]) for i, op in enumerate(n.ops)]
            return self.bool_chain(True, parts)
        return self.bind_all(es, build)

    def compare1(self, op, ln, rn, env):
        if isinstance(op, (ast.Is, ast.IsNot)):
            if isinstance(ln, ast.Constant) and ln.value is None:
                ln, rn = rn, ln
            if not (isinstance(rn, ast.Constant) and rn.value is None):
                raise Refuse("`is` against something other than None")
            e = self.expr(ln, env)
            if e.ty[0] != "opt":
                raise Refuse("`is None` on a value of type %r" % (e.ty,))
            f = "isSome" if isinstance(op, ast.IsNot) else "isNone"
            return self.bind_all([e], lambda t: E("(%s).%s" % (t[0], f), BOOL))
        if isinstance(op, (ast.In, ast.NotIn)):
            r = self.membership(ln, rn, env)
            if isinstance(op, ast.NotIn):
                return self.bind_all([r], lambda t: E("(!%s)" % par(t[0]), BOOL))
            return r
        a, b = self.expr(ln, env), self.expr(rn, env)
        return self.bind_all([a, b], lambda t: self.cmp(op, E(t[0], a.ty, False, a.parts), E(t[1], b.ty, False, b.parts)))

    def cmp(self, op, a, b):
        """a, b pure"""
        if isinstance(op, ast.Eq):
            return self.eq(a, b)
        if isinstance(op, ast.NotEq):
            e = self.eq(a, b)
            return E("(!%s)" % par(e.text), BOOL)
        if isinstance(op, (ast.Lt, ast.LtE, ast.Gt, ast.GtE)):
            return self.order(type(op), a, b)
        raise Refuse("comparison operator %s" % type(op).__name__)

    def eq(self, a, b):
        if FLOAT in (a.ty, b.ty):
            if {a.ty, b.ty} <= {FLOAT, INT}:
                return E("(Py.fEq %s %s)" % (par(self.coerce(a, FLOAT).text), par(self.coerce(b, FLOAT).text)), BOOL)
            raise Refuse("== between %r and %r" % (a.ty, b.ty))
        if a.ty == NONE or b.ty == NONE:
            raise Refuse("== None (use `is`)")
        if same(a.ty, b.ty) and eq_able(a.ty):
            return E("(%s == %s)" % (a.text, b.text), BOOL)
        if a.ty[0] == "opt" and same(a.ty[1], b.ty) and eq_able(b.ty):
            return E("(%s == some %s)" % (a.text, par(b.text)), BOOL)
        if b.ty[0] == "opt" and same(b.ty[1], a.ty) and eq_able(a.ty):
            return E("(some %s == %s)" % (par(a.text), b.text), BOOL)
        raise Refuse("== between %r and %r" % (a.ty, b.ty))

    SYM = {ast.Lt: "<", ast.LtE: "≤", ast.Gt: ">", ast.GtE: "≥"}

    def order(self, op, a, b):
        """Python ordering comparison; pure operands; the result may raise (None against anything)"""
        sym = self.SYM[op]
        if {a.ty, b.ty} <= {FLOAT, INT} and FLOAT in (a.ty, b.ty):
            x, y = self.coerce(a, FLOAT).text, self.coerce(b, FLOAT).text
            if op in (ast.Gt, ast.GtE):
                x, y = y, x
            return E("(%s %s %s)" % ("Py.fLt" if op in (ast.Lt, ast.Gt) else "Py.fLe", par(x), par(y)), BOOL)
        if same(a.ty, b.ty) and a.ty in (INT, STR, STR1, CHARS):
            return E("decide (%s %s %s)" % (a.text, sym, b.text), BOOL)
        if a.ty[0] == "opt" or b.ty[0] == "opt":
            ia = a.ty[1] if a.ty[0] == "opt" else a.ty
            ib = b.ty[1] if b.ty[0] == "opt" else b.ty
            if same(ia, ib) and ia in (INT, STR, STR1):
                x = a.text if a.ty[0] == "opt" else "(some %s)" % par(a.text)
                y = b.text if b.ty[0] == "opt" else "(some %s)" % par(b.text)
                return E("(Py.optCmp (fun (x y : %s) => decide (x %s y)) %s %s)" % (lean_type(ia), sym, par(x), par(y)), BOOL, True)
            raise Refuse("ordering of %r and %r" % (a.ty, b.ty))
        if a.ty[0] == "tup" and b.ty[0] == "tup" and len(a.ty[1]) == len(b.ty[1]):
            return self.lex(op, self.components(a), self.components(b))
        raise Refuse("ordering of %r and %r" % (a.ty, b.ty))

    def components(self, e):
        if e.parts is not None and all(not p.eff for p in e.parts):
            return e.parts
        n = len(e.ty[1])
        out = []
        for i, t in enumerate(e.ty[1]):
            proj = "(%s)" % e.text + ".2" * i + (".1" if i < n - 1 else "")
            out.append(E(proj, t))
        return out

    def lex(self, op, As, Bs):
        """tuple comparison: the first position where the items differ (by ==) decides with `op`; no such position:
        equal tuples"""
        a, b = As[0], Bs[0]
        neq = self.cmp(ast.NotEq(), a, b)
        here = self.order(op, a, b)
        if len(As) == 1:
            if not here.eff:
                return here      # total orders: a == b gives the right answer for < and <= alike
            tail = E("true" if op in (ast.LtE, ast.GtE) else "false", BOOL)
        else:
            tail = self.lex(op, As[1:], Bs[1:])
        eff = here.eff or tail.eff
        w = lambda e: e.text if (e.eff or not eff) else "some %s" % par(e.text)
        return E("(if %s then %s else %s)" % (neq.text, w(here), w(tail)), BOOL, eff)

    def membership(self, ln, rn, env):
        a = self.expr(ln, env)
        # Enum.__members__
        if isinstance(rn, ast.Attribute) and rn.attr == "__members__":
            info = self.enum_class(rn.value, env)
            if info is None:
                raise Refuse("__members__ of something that is not a registered enum")
            return self.bind_all([a], lambda t: self.opt_lift(t[0], a.ty, STR, lambda v: "(%s.ofName? %s).isSome" % (info.name, par(v))))
        if isinstance(rn, (ast.Tuple, ast.List, ast.Set)):
            if not rn.elts:
                raise Refuse("membership in an empty display")
            items = [self.expr(e, env) for e in rn.elts]
            if any(i.eff for i in items):
                raise Refuse("display items that may raise")
            inner = a.ty[1] if a.ty[0] == "opt" else a.ty
            if not eq_able(inner) or inner[0] in ("opt", "tup"):
                raise Refuse("membership test on %r" % (a.ty,))
            for i in items:
                if not same(i.ty, inner):
                    raise Refuse("display item of type %r against %r" % (i.ty, inner))
            lst = "([%s] : List %s)" % (", ".join(i.text for i in items), lean_type(inner, True))
            return self.bind_all([a], lambda t: self.opt_lift(t[0], a.ty, inner, lambda v: "(%s.contains %s)" % (lst, par(v))))
        b = self.expr(rn, env)
        if b.ty in (STR, STR1):
            if a.ty not in (STR, STR1):
                raise Refuse("`in <str>` needs a str on the left (TypeError otherwise)")
            return self.bind_all([a, b], lambda t: E("(Py.strIn %s %s)" % (par(t[0]), par(t[1])), BOOL))   # SUBSTRING test
        if b.ty[0] == "dict" and not b.eff:
            if not same(a.ty, b.ty[1]):
                raise Refuse("dict key type")
            return self.bind_all([a], lambda t: E("((%s).lookup %s).isSome" % (b.text, par(t[0])), BOOL))
        if b.ty[0] == "list" and not b.eff and eq_able(b.ty[1]):
            inner = b.ty[1]
            return self.bind_all([a], lambda t: self.opt_lift(t[0], a.ty, inner, lambda v: "((%s).contains %s)" % (b.text, par(v))))
        raise Refuse("membership in a value of type %r" % (b.ty,))

    def opt_lift(self, text, ty, inner, f):
        """f on a value of type `inner`; an Optional left operand that is None is in no collection of non-None items"""
        if same(ty, inner):
            return E(f(text), BOOL)
        if ty[0] == "opt" and same(ty[1], inner):
            v = self.fresh("v")
            return E("(match %s with | some %s => %s | none => false)" % (text, v, f(v)), BOOL)
        raise Refuse("membership: left operand %r against items %r" % (ty, inner))

    # ---------------------------------------------------------------- subscripts

    def const_int(self, n):
        if n is None:
            return None
        if isinstance(n, ast.Constant) and isinstance(n.value, int) and not isinstance(n.value, bool):
            return n.value
        if isinstance(n, ast.UnaryOp) and isinstance(n.op, ast.USub) and isinstance(n.operand, ast.Constant) \
                and isinstance(n.operand.value, int) and not isinstance(n.operand.value, bool):
            return -n.operand.value
        raise Refuse("slice bound / index that is not an integer literal")

    def x_Subscript(self, n, env):
        info = self.enum_class(n.value, env)
        if info is not None:      # Enum["name"]: KeyError for a name that is not a member
            k = self.expr(n.slice, env)
            if k.ty == Opt(STR):    # Enum[None] is a KeyError as well
                return self.bind_all([k], lambda t: E("((%s).bind %s.ofName?)" % (t[0], info.name), Enum(info.name), True))
            if k.ty not in (STR, STR1):
                raise Refuse("Enum[...] with a key of type %r" % (k.ty,))
            return self.bind_all([k], lambda t: E("(%s.ofName? %s)" % (info.name, par(t[0])), Enum(info.name), True))
        b = self.expr(n.value, env)
        if b.ty in (STR, STR1):
            if isinstance(n.slice, ast.Slice):
                if n.slice.step is not None:
                    raise Refuse("slice step")
                lo, hi = self.const_int(n.slice.lower), self.const_int(n.slice.upper)
                one = hi is not None and hi >= 0 and (lo or 0) >= 0 and hi - (lo or 0) <= 1
                one = one or (lo is not None and lo < 0 and hi is None and lo >= -1)
                o = lambda v: "none" if v is None else "(some %s)" % lean_int(v)
                return self.bind_all([b], lambda t: E("(Py.slice %s %s %s)" % (par(t[0]), o(lo), o(hi)), STR1 if (one or b.ty == STR1) else STR))
            i = self.expr(n.slice, env)
            if i.ty != INT:
                raise Refuse("string index of type %r" % (i.ty,))
            return self.bind_all([b, i], lambda t: E("(Py.index? %s %s)" % (par(t[0]), par(t[1])), STR1, True))
        if b.ty[0] == "tup":
            i = self.const_int(n.slice) if not isinstance(n.slice, ast.Slice) else None
            if i is None or not (0 <= i < len(b.ty[1])):
                raise Refuse("tuple subscript")
            return self.bind_all([b], lambda t: self.components(E(t[0], b.ty))[i])
        if b.ty[0] == "dict" and not b.eff:
            k = self.expr(n.slice, env)
            if not same(k.ty, b.ty[1]):
                raise Refuse("dict key of type %r" % (k.ty,))
            return self.bind_all([k], lambda t: E("((%s).lookup %s)" % (b.text, par(t[0])), b.ty[2], True))
        raise Refuse("subscript of %r" % (b.ty,))

    # ---------------------------------------------------------------- calls

    STR_METHODS0 = {"upper": ("Py.upper", STR), "strip": ("Py.strip", STR), "isalpha": ("Py.isAlpha", BOOL),
                    "isdigit": ("Py.isDigit", BOOL), "isspace": ("Py.isSpace", BOOL)}

    def x_Call(self, n, env):
        if n.keywords or any(isinstance(a, ast.Starred) for a in n.args):
            raise Refuse("keyword / starred arguments")
        f = n.func
        dotted = self.dotted(f)
        root = dotted.split(".")[0] if dotted else None
        if dotted in self.spec.oracles and root not in env.vars:
            lean, fty = self.spec.oracles[dotted]
            if len(n.args) != len(fty[1]):
                raise Refuse("oracle arity")
            args = [self.coerce(self.expr(a, env), t) for a, t in zip(n.args, fty[1])]
            self.oracle_names[dotted] = lean
            return self.bind_all(args, lambda ts: E("(%s %s)" % (lean, " ".join(par(t) for t in ts)), fty[2]))
        if dotted in self.spec.calls and root not in env.vars:
            return self.call_translated(self.spec.calls[dotted], [self.expr(a, env) for a in n.args])
        if isinstance(f, ast.Name) and f.id not in env.vars:
            return self.builtin(f.id, n.args, env)
        if dotted == "math.isnan" and "math" not in env.vars and len(n.args) == 1:
            a = self.expr(n.args[0], env)
            if a.ty != FLOAT:
                raise Refuse("math.isnan of %r" % (a.ty,))
            return self.bind_all([a], lambda t: E("(Py.isNan %s)" % par(t[0]), BOOL))
        if isinstance(f, ast.Attribute):
            recv = self.expr(f.value, env)
            if recv.ty[0] == "opt":
                recv = self.join_eff(recv)
            args = [self.expr(a, env) for a in n.args]
            return self.bind_all([recv] + args, lambda ts: self.method(E(ts[0], recv.ty), f.attr,
                                                                       [E(t, a.ty) for t, a in zip(ts[1:], args)], f.value, n.args))
        raise Refuse("call of %s" % ast.unparse(f))

    def builtin(self, name, argn, env):
        if name == "sorted" and len(argn) == 1 and isinstance(argn[0], ast.List) and argn[0].elts:
            items = [self.expr(e, env) for e in argn[0].elts]
            if all(i.ty in (STR, STR1) for i in items):
                return self.bind_all(items, lambda ts: E("(Py.sortedStr [%s])" % ", ".join(ts), ListT(STR)))
            raise Refuse("sorted of a list of %r" % ([i.ty for i in items],))
        args = [self.expr(a, env) for a in argn]
        if name == "len" and len(args) == 1:
            a = args[0]
            if a.ty in (STR, STR1):
                return self.bind_all([a], lambda t: E("(Py.len %s)" % par(t[0]), INT))
            if a.ty == CHARS or a.ty[0] == "list":
                return self.bind_all([a], lambda t: E("((%s).length : Int)" % t[0], INT))
        if name == "tuple" and len(args) == 1 and args[0].ty in (STR, STR1):
            return self.bind_all(args, lambda t: E("(%s).toList" % t[0], CHARS))
        if name == "str" and len(args) == 1:
            a = args[0]
            if a.ty in (STR, STR1):
                return a
            if a.ty == INT:
                return self.bind_all([a], lambda t: E("(Py.strOfInt %s)" % par(t[0]), STR))
        if name == "abs" and len(args) == 1 and args[0].ty == INT:
            return self.bind_all(args, lambda t: E("((Int.natAbs %s : Nat) : Int)" % par(t[0]), INT))
        if name in ("min", "max") and len(args) >= 2:
            if all(a.ty == INT for a in args):
                # Python keeps the first of equal items; for ints equal items are indistinguishable
                return self.bind_all(args, lambda ts: E(self.fold(ts, lambda x, y: "(%s %s %s)" % (name, par(x), par(y))), INT))
            if all(a.ty in (INT, FLOAT) for a in args):
                cs = [self.coerce(a, FLOAT) for a in args]
                fn = "Py.fMin" if name == "min" else "Py.fMax"
                return self.bind_all(cs, lambda ts: E(self.fold(ts, lambda x, y: "(%s %s %s)" % (fn, par(x), par(y))), FLOAT))
        if name == "sorted" and len(argn) == 1 and isinstance(argn[0], ast.List) and argn[0].elts:
            items = [self.expr(e, env) for e in argn[0].elts]
            if all(i.ty in (STR, STR1) for i in items):
                return self.bind_all(items, lambda ts: E("(Py.sortedStr [%s])" % ", ".join(ts), ListT(STR)))
        raise Refuse("builtin %s on %r" % (name, [a.ty for a in args]))

    @staticmethod
    def fold(ts, f):
        acc = ts[0]
        for t in ts[1:]:
            acc = f(acc, t)
        return acc

    def method(self, recv, name, args, recv_node, arg_nodes):
        ty = recv.ty
        if ty in (STR, STR1):
            if name in self.STR_METHODS0 and not args:
                fn, rt = self.STR_METHODS0[name]
                return E("(%s %s)" % (fn, par(recv.text)), rt)
            if name == "lower" and not args:
                if ty != STR1:
                    raise Refuse("str.lower() on a string that may have more than one character (final-sigma rule)")
                return E("(Py.lower1 %s)" % par(recv.text), STR)
            if name in ("startswith", "endswith") and len(args) == 1 and args[0].ty in (STR, STR1):
                return E("(Py.%s %s %s)" % ("startsWith" if name == "startswith" else "endsWith", par(recv.text), par(args[0].text)), BOOL)
            if name in ("ljust", "rjust") and len(args) == 1 and args[0].ty == INT:
                return E("(Py.%s %s %s)" % (name, par(recv.text), par(args[0].text)), STR)
            if name == "join" and len(args) == 1 and args[0].ty == ListT(STR) and isinstance(recv_node, ast.Constant):
                return E("(Py.join %s %s)" % (par(recv.text), par(args[0].text)), STR)
            raise Refuse("str method %s" % name)
        if ty[0] == "dict":
            if name == "get" and len(args) in (1, 2) and same(args[0].ty, ty[1]):
                look = "((%s).lookup %s)" % (recv.text, par(args[0].text))
                if len(args) == 1:
                    return E(look, Opt(ty[2]))
                d = args[1]
                rt = join_ty(ty[2], d.ty)
                if rt[0] == "opt" and ty[2][0] != "opt":
                    return E("(match %s with | some v => %s | none => %s)" % (look, self.coerce(E("v", ty[2]), rt).text, self.coerce(d, rt).text), rt)
                return E("(%s.getD %s)" % (look, par(self.coerce(d, rt).text)), rt)
            raise Refuse("dict method %s" % name)
        if ty[0] == "struct":
            sname = ty[1]
            while sname is not None:
                s = self.w.structs[sname]
                if name in s.methods:
                    return self.call_translated(s.methods[name], [recv] + args)
                if name in dict(s.fields) and dict(s.fields)[name][0] == "fn":
                    fty = dict(s.fields)[name]
                    if len(args) != len(fty[1]):
                        raise Refuse("arity")
                    cs = [self.coerce(a, t) for a, t in zip(args, fty[1])]
                    return E("((%s).%s %s)" % (self.w.upcast(recv.text, ty[1], sname), lean_ident(name), " ".join(par(c.text) for c in cs)), fty[2])
                sname = s.base
        raise Refuse("method %s of %r" % (name, ty))


def replace_token(text, token, repl):
    out = []
    for line in text.split("\n"):
        if token in line:
            lead = line[:len(line) - len(line.lstrip(" "))]
            pre, post = line.split(token, 1)
            rl = repl.split("\n")
            if pre.strip():
                out.append(pre.rstrip())
                out.extend(lead + "  " + l for l in rl[:-1])
                out.append(lead + "  " + rl[-1] + post)
            else:
                out.extend(lead + l for l in rl[:-1])
                out.append(lead + rl[-1] + post)
        else:
            out.append(line)
    return "\n".join(out)


def par(t):
    t = t.strip()
    if t.startswith("(") and _balanced_outer(t):
        return t
    if all(c.isalnum() or c in "_.'" for c in t) or (t.startswith('"') and t.endswith('"') and '"' not in t[1:-1]):
        return t
    return "(" + t + ")"


def _balanced_outer(t):
    depth = 0
    instr = False
    i = 0
    while i < len(t):
        c = t[i]
        if instr:
            if c == "\\":
                i += 1
            elif c == '"':
                instr = False
        elif c == '"':
            instr = True
        elif c == "(":
            depth += 1
        elif c == ")":
            depth -= 1
            if depth == 0 and i != len(t) - 1:
                return False
        i += 1
    return depth == 0


class Tree:
    def __init__(self, kind, **kw):
        self.kind = kind
        self.__dict__.update(kw)

    @staticmethod
    def leaf(p):
        return Tree("leaf", p=p)

    def has_eff(self, leaf_eff):
        if self.kind == "leaf":
            return leaf_eff(self.p)
        t = self.t if isinstance(self.t, Tree) else Tree.leaf(self.t)
        f = self.f if isinstance(self.f, Tree) else Tree.leaf(self.f)
        return self.kind == "itee" or t.has_eff(leaf_eff) or f.has_eff(leaf_eff)

    def render(self, leaf, raise_text):
        if self.kind == "leaf":
            return leaf(self.p)
        t = self.t if isinstance(self.t, Tree) else Tree.leaf(self.t)
        f = self.f if isinstance(self.f, Tree) else Tree.leaf(self.f)
        a, b = t.render(leaf, raise_text), f.render(leaf, raise_text)
        if self.kind == "ite":
            return "(if %s then\n%s\nelse\n%s)" % (self.c, ind(a), ind(b))
        if self.kind == "itee":
            return "(match %s with\n  | some true =>\n%s\n  | some false =>\n%s\n  | none => %s)" % (self.c, ind(a, 4), ind(b, 4), raise_text())
        if self.kind == "mopt":
            return "(match %s with\n  | some %s =>\n%s\n  | none =>\n%s)" % (self.scrut, self.var, ind(a, 4), ind(b, 4))
        raise AssertionError(self.kind)


# =====================================================================================================
# statements

class K:
    """continuation: k(env) -> Lean text of what follows; `reads` = python names it may read"""

    def __init__(self, fn, reads=()):
        self.fn, self.reads = fn, frozenset(reads)

    def __call__(self, env):
        return self.fn(env)


def _names(node):
    return {n.id for n in ast.walk(node) if isinstance(n, ast.Name)}


def defs_of(stmts):
    """names definitely assigned by running the block to its end"""
    out = set()
    for s in stmts:
        if isinstance(s, ast.Assign):
            out |= {t.id for t in s.targets if isinstance(t, ast.Name)}
        elif isinstance(s, ast.AnnAssign) and s.value is not None and isinstance(s.target, ast.Name):
            out.add(s.target.id)
        elif isinstance(s, ast.If):
            out |= defs_of(s.body) & defs_of(s.orelse)
    return out


def names_read(stmts):
    """names that may be read before they are assigned when the block runs (liveness at block entry; over-approximation)"""
    live, defined = set(), set()
    for s in stmts:
        if isinstance(s, ast.Assign):
            live |= _names(s.value) - defined
            for t in s.targets:
                if not isinstance(t, ast.Name):
                    live |= _names(t) - defined
        elif isinstance(s, ast.AnnAssign) and isinstance(s.target, ast.Name):
            if s.value is not None:
                live |= _names(s.value) - defined
        elif isinstance(s, ast.If):
            live |= (_names(s.test) | names_read(s.body) | names_read(s.orelse)) - defined
        elif isinstance(s, ast.For) and isinstance(s.target, ast.Name):
            live |= (_names(s.iter) | (names_read(s.body) - {s.target.id}) | names_read(s.orelse)) - defined
        else:
            live |= _names(s) - defined
        defined |= defs_of([s])
    return live


class Mode:
    """how a block delivers its outcome.  top level: the value itself (total) or Option (raising);
    inside a `for` body: Option of the enclosing outcome, `none` = go on with the next item"""

    def __init__(self, raises, depth=0):
        self.raises, self.depth = raises, depth

    def wrap(self, t):
        for _ in range(self.depth):
            t = "some %s" % par(t)
        return t

    def ret(self, e):
        if e.eff and not self.raises:
            raise Refuse("the returned expression may raise but the function is declared total")
        if self.raises:
            return self.wrap(e.text if e.eff else "some %s" % par(e.text))
        return self.wrap(e.text)

    def raise_(self):
        if not self.raises:
            raise Refuse("raising construct in a function declared total")
        return self.wrap("none")

    def inner(self):
        return Mode(self.raises, self.depth + 1)


HARMLESS_LOG_NODES = (ast.Constant, ast.JoinedStr, ast.FormattedValue, ast.Name, ast.Load)


class StmtTranslator(FnTranslator):
    def always_returns(self, stmts):
        for s in stmts:
            if isinstance(s, (ast.Return, ast.Raise)):
                return True
            if isinstance(s, ast.If) and s.orelse and self.always_returns(s.body) and self.always_returns(s.orelse):
                return True
        return False

    def skippable(self, s, env):
        if isinstance(s, ast.Pass):
            return True
        if isinstance(s, ast.Expr):
            v = s.value
            if isinstance(v, ast.Constant) and isinstance(v.value, str):
                return True
            if isinstance(v, ast.Call) and self.dotted(v.func) in ("logging.debug", "logging.info", "logging.warning", "logging.error") \
                    and "logging" not in env.vars and not v.keywords:
                for a in v.args:
                    for sub in ast.walk(a):
                        if not isinstance(sub, HARMLESS_LOG_NODES):
                            return False
                        if isinstance(sub, ast.Name) and (sub.id not in env.vars or env.vars[sub.id][1] not in (STR, STR1, INT)):
                            return False
                        if isinstance(sub, ast.FormattedValue) and (sub.conversion != -1 or sub.format_spec is not None):
                            return False
                return True
        return False

    def assign_only(self, stmts, env):
        """block made of plain assignments to names (and skippable statements) -> [(name, value node)] | None"""
        out = []
        for s in stmts:
            if isinstance(s, ast.Assign) and len(s.targets) == 1 and isinstance(s.targets[0], ast.Name):
                out.append((s.targets[0].id, s.value))
            elif isinstance(s, ast.AnnAssign) and isinstance(s.target, ast.Name) and s.value is not None and s.simple:
                out.append((s.target.id, s.value))
            elif self.skippable(s, env):
                continue
            else:
                return None
        return out

    def block(self, stmts, env, mode, k):
        """k(env) -> Lean text for what follows this block (None: end of the function body)"""
        if not stmts:
            return k(env)
        s, rest = stmts[0], stmts[1:]
        nxt = K(lambda e: self.block(rest, e, mode, k), names_read(rest) | (k.reads - defs_of(rest)))
        if self.skippable(s, env):
            return nxt(env)
        if isinstance(s, ast.Return):
            v = s.value if s.value is not None else ast.Constant(value=None)
            return mode.ret(self.coerce(self.expr(v, env), self.spec.ret))
        if isinstance(s, ast.Raise):
            return mode.raise_()
        if isinstance(s, (ast.Assign, ast.AnnAssign)):
            one = self.assign_only([s], env)
            if not one:
                raise Refuse("assignment form")
            name, vnode = one[0]
            return self.let(name, self.expr(vnode, env), env, mode, nxt)
        if isinstance(s, ast.If):
            return self.if_stmt(s, rest, env, mode, k)
        if isinstance(s, ast.For):
            return self.for_stmt(s, env, mode, nxt)
        raise Refuse("statement %s" % type(s).__name__)

    def let(self, name, e, env, mode, nxt):
        if e.ty == NONE:
            raise Refuse("variable bound to None only")
        lean = lean_ident(name)
        if name in self.param_names and False:
            pass
        env2 = env.bind(name, lean, e.ty)
        if e.eff:
            return "(match %s with\n  | some %s =>\n%s\n  | none => %s)" % (e.text, lean, ind(nxt(env2), 4), mode.raise_())
        return "let %s := %s\n%s" % (lean, e.text, nxt(env2))

    def if_stmt(self, s, rest, env, mode, k):
        # (1) every branch only assigns: `let (x, y) := if … then … else (x, y)`
        then_as = self.assign_only(s.body, env)
        else_as = self.assign_only(s.orelse, env) if s.orelse else []
        if then_as is not None and else_as is not None and (then_as or else_as):
            return self.if_assign(s, then_as, else_as, rest, env, mode, k)
        # (2) general: continuation used by the branches that fall through
        body_ret, else_ret = self.always_returns(s.body), bool(s.orelse) and self.always_returns(s.orelse)
        kname = self.fresh("k")
        token = "\x00%s\x00" % kname
        uses = [0]
        reads = names_read(rest) | (k.reads - defs_of(rest))
        assigned = (self.assigns_in(s.body) | self.assigns_in(s.orelse)) & reads

        def cont_fn(e):
            uses[0] += 1
            gained = [p for p in e.narrow if p not in env.narrow and p.split(".")[0] in reads]
            if assigned or gained:   # the continuation reads variables bound / narrowed in the branch: it is placed there
                return self.block(rest, e, mode, k)
            return token
        cont = K(cont_fn, reads)
        tf = lambda e: self.block(s.body, e, mode, cont)
        ff = lambda e: self.block(s.orelse, e, mode, cont)
        tree = self.cond_tree(s.test, env, tf, ff)
        text = tree.render(lambda t: t, mode.raise_)
        if body_ret and else_ret:
            return text
        if token not in text:
            return text
        ktext = self.block(rest, env, mode, k)
        if text.count(token) == 1 or len(ktext) <= 40 and "\n" not in ktext:
            return replace_token(text, token, ktext)
        return "let %s := fun (_ : Unit) =>\n%s\n%s" % (kname, ind(ktext), text.replace(token, "%s ()" % kname))

    def assigns_in(self, stmts):
        out = set()
        for st in stmts:
            for n in ast.walk(st):
                if isinstance(n, (ast.Assign, ast.AnnAssign, ast.AugAssign, ast.For, ast.NamedExpr)):
                    for t in (n.targets if isinstance(n, ast.Assign) else [n.target]):
                        for x in ast.walk(t):
                            if isinstance(x, ast.Name):
                                out.add(x.id)
        return out

    def if_assign(self, s, then_as, else_as, rest, env, mode, k):
        names = []
        for n, _ in then_as + else_as:
            if n not in names:
                names.append(n)

        def branch(assigns):
            def f(e):
                cur = e
                lets = []
                for n, vnode in assigns:
                    x = self.expr(vnode, cur)
                    if x.eff:
                        raise Refuse("assignment that may raise inside a conditional assignment")
                    lean = lean_ident(n)
                    lets.append((lean, x))
                    cur = cur.bind(n, lean, x.ty)
                vals = []
                for n in names:
                    if n not in cur.vars:
                        raise Refuse("variable %s is not bound on every path" % n)
                    vals.append(E(cur.vars[n][0], cur.vars[n][1]))
                return lets, vals
            return f
        # types first (un-narrowed environment), then the tree with narrowed environments
        _, tv = branch(then_as)(env)
        _, ev = branch(else_as)(env)
        tys = [join_ty(a.ty, b.ty) for a, b in zip(tv, ev)]
        if any(t == NONE for t in tys):
            raise Refuse("variable bound to None only")

        def leaf(assigns):
            def f(e):
                lets, vals = branch(assigns)(e)
                vals = [self.coerce(v, t) for v, t in zip(vals, tys)]
                tup = vals[0].text if len(vals) == 1 else "(" + ", ".join(v.text for v in vals) + ")"
                return "".join("let %s := %s\n" % (l, x.text) for l, x in lets) + tup
            return f
        tree = self.cond_tree(s.test, env, leaf(then_as), leaf(else_as))
        if tree.has_eff(lambda p: False):
            raise Refuse("condition of a conditional assignment may raise")
        text = tree.render(lambda t: t, lambda: "none")
        env2 = env
        for n, t in zip(names, tys):
            env2 = env2.bind(n, lean_ident(n), t)
        pat = lean_ident(names[0]) if len(names) == 1 else "(" + ", ".join(lean_ident(n) for n in names) + ")"
        tyt = lean_type(tys[0]) if len(names) == 1 else " × ".join(lean_type(t, True) for t in tys)
        if len(names) == 1:
            return "let %s : %s := %s\n%s" % (pat, tyt, text, self.block(rest, env2, mode, k))
        tmp = self.fresh("p")
        projs = self.components(E(tmp, Tup(*tys)))
        lets = "".join("let %s := %s\n" % (lean_ident(n), p.text) for n, p in zip(names, projs))
        return "let %s : %s := %s\n%s%s" % (tmp, tyt, text, lets, self.block(rest, env2, mode, k))

    def for_stmt(self, s, env, mode, nxt):
        """`for v in xs: <body that only returns / raises / falls through>`  ==  first iteration that returns"""
        if s.orelse or not isinstance(s.target, ast.Name):
            raise Refuse("for-else / tuple target")
        if self.assigns_in(s.body):
            raise Refuse("assignment inside a loop body (loop-carried state)")
        for n in ast.walk(ast.Module(body=s.body, type_ignores=[])):
            if isinstance(n, (ast.Break, ast.Continue, ast.While, ast.For)):
                raise Refuse("break / continue / nested loop")
        it = self.expr(s.iter, env)
        if it.ty[0] != "list":
            raise Refuse("iteration over %r" % (it.ty,))
        v = lean_ident(s.target.id)
        inner = mode.inner()
        body = self.block(s.body, env.bind(s.target.id, v, it.ty[1]), inner, K(lambda e: "none"))
        r = self.fresh("r")
        after = nxt(env.without(s.target.id))     # the loop variable is not available afterwards (it would be unbound for an empty list)
        loop = "(match (%s).findSome? (fun %s =>\n%s) with\n  | some %s => %s\n  | none =>\n%s)" % ("%s", v, ind(body, 4), r, r, ind(after, 4))
        if it.eff:
            xs = self.fresh("xs")
            return "(match %s with\n  | some %s =>\n%s\n  | none => %s)" % (it.text, xs, ind(loop % xs, 4), mode.raise_())
        return loop % par(it.text)

    # ---------------------------------------------------------------- whole function

    def translate(self):
        fn, spec = self.fn, self.spec
        if spec.fragment is not None:
            pynames, body = spec.fragment(fn)
        else:
            a = fn.args
            if a.vararg or a.kwarg or a.kwonlyargs or a.posonlyargs or a.defaults or a.kw_defaults:
                raise Refuse("parameters other than plain positional ones")
            pynames = [x.arg for x in a.args]
            body = strip_doc(fn)
            for d in fn.decorator_list:
                if ast.unparse(d) not in ("property", "cached_property", "cache", "staticmethod", "functools.cached_property", "functools.cache"):
                    raise Refuse("decorator %s" % ast.unparse(d))
        if len(pynames) != len(spec.params):
            raise Refuse("%d parameters, whitelist entry has %d" % (len(pynames), len(spec.params)))
        for n in ast.walk(ast.Module(body=body, type_ignores=[])):
            if isinstance(n, (ast.Global, ast.Nonlocal, ast.Yield, ast.YieldFrom, ast.Await, ast.Lambda, ast.FunctionDef, ast.ClassDef,
                              ast.NamedExpr, ast.Delete, ast.With, ast.While, ast.Try, ast.AugAssign, ast.ListComp, ast.SetComp,
                              ast.DictComp, ast.GeneratorExp)):
                raise Refuse("construct %s" % type(n).__name__)
        self.param_names = pynames
        env = Env()
        lparams = []
        for dotted, (lean, fty) in spec.oracles.items():
            lparams.append("(%s : %s)" % (lean, lean_type(fty)))
        for py, ty in zip(pynames, spec.params):
            lean = lean_ident(py)
            env = env.bind(py, lean, ty)
            lparams.append("(%s : %s)" % (lean, lean_type(ty)))
        mode = Mode(spec.raises)

        def end(e):
            # falling off the end returns None
            return mode.ret(self.coerce(E("none", NONE), spec.ret))
        text = self.block(body, env, mode, K(end))
        unused = [d for d in spec.oracles if d not in self.oracle_names]
        rty = lean_type(spec.ret, True)
        rty = "Option %s" % rty if spec.raises else lean_type(spec.ret)
        out = []
        for name, lty, val, key in self.const_defs:
            out.append("/-- live value of `%s` -/\ndef %s : %s :=\n  %s\n" % (key, name, lty, val))
        out.append("def %s %s : %s :=\n%s\n" % (spec.lean, " ".join(lparams), rty, ind(text)))
        return "\n".join(out), unused


def translate(world, spec, module, tree):
    """-> dict(lean=<definition text>, sha=<AST sha>, source=<python text>) ; raises Refuse"""
    fn = find_def(tree, spec.qual)
    if fn is None:
        raise Refuse("function %s.%s not found (or not unique)" % (spec.module, spec.qual))
    tr = StmtTranslator(world, spec, module, fn)
    lean, unused = tr.translate()
    src = ast.unparse(fn) if spec.fragment is None else "\n".join(ast.unparse(s) for s in spec.fragment(fn)[1])
    sha = ast_sha(fn) if spec.fragment is None else hashlib.sha256(
        "\n".join(ast.dump(s, include_attributes=False) for s in spec.fragment(fn)[1]).encode()).hexdigest()[:16]
    return {"lean": lean, "sha": sha, "source": src, "line": fn.lineno, "unused_oracles": unused}

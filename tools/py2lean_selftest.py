#!/venv/bin/python
"""Self-test of tools/py2lean.py, independent of rnapolis.

1. a synthetic module of small functions, one or two per construct of the accepted subset, is translated, the Lean
   text is compiled (`lake env lean`) and EVALUATED on an input grid; every result is compared with what CPython
   returns for the same arguments (exceptions = `raise`);
2. a list of functions that are OUTSIDE the subset must each be refused.

    tools/py2lean_selftest.py            exit 0 = every translated function agrees on every input, every outsider refused
"""
import ast
import itertools
import math
import os
import subprocess
import sys
import types
from fractions import Fraction

HERE = os.path.dirname(os.path.abspath(__file__))
sys.path.insert(0, HERE)
import py2lean as P  # noqa: E402
from py2lean import BOOL, FLOAT, INT, STR, Enum, ListT, Opt, Struct, Tup  # noqa: E402

LEAN = os.path.join(os.path.dirname(HERE), "lean")

SRC = '''
import enum, math
from dataclasses import dataclass
from typing import Optional

class Color(enum.Enum):
    red = "r"
    green = "g"
    blue = "b"

@dataclass(frozen=True)
class Item:
    name: str
    val: int
    tag: Optional[str]

LIMIT = 2.5

def f01(a, b, c):
    return a < b <= c
def f02(a, b):
    if a == 0:
        return b
    elif a > 0 and b != 3:
        return a * b - 2
    else:
        return -a
def f03(s):
    return s.upper().startswith("AB") or s.endswith("z")
def f04(s):
    return s[1:] + "|" + s[:-1] + "|" + s[:1] + "|" + s[-2:] + "|" + s[1:3] + "|" + s[-1:] + "|" + s[:]
def f05(s):
    return s[0] + s[-1] + s[1]
def f06(s, t):
    return (s in ("a", "bc"), s in "abc", s not in ["x", "AB"], t in {1, 2}, "b" in s)
def f07(x):
    if x is None:
        return None
    return x + 1
def f08(x):
    return len(x or "dflt")
def f09(a, b, c, d):
    return ((a, b) < (c, d), (a, b) <= (c, d), (a, b) > (c, d), (a, b) >= (c, d), (a, b) == (c, d), (a, b) != (c, d))
def f10(x, y):
    return (x, 1) < (y, 2)
def f11(c):
    if c == Color.red:
        return Color.blue
    return c
def f12(c, s):
    return Color[s] if s in Color.__members__ else Color[c.value]
def f13(s):
    return (len(s.strip()), s.isalpha(), s.isdigit(), s.isspace(), s.ljust(4) + "|" + s.rjust(3))
def f14(s, n):
    return f"{s}-{n}:{s[:1]}"
def f15(a, b):
    if a == 1:
        if b == 1:
            return 10
        if b == 2:
            x = a + b
            y = x * 2
            if y > 5:
                return y
        if b == 3:
            return 30
    if a == 2:
        if b == 2:
            return 40
    if a == 3:
        return 50
    return None
def f16(a):
    if a > 0:
        s = "p"
        t = 1
    elif a < 0:
        s = "n"
        t = -1
    else:
        t = 0
        s = "z"
    return (s, t + a)
def f17(xs, k):
    for x in xs:
        if x.name == k:
            return x.val
    return None
def f18(x):
    if math.isnan(x):
        return None
    return "in" if -1.5 < x <= LIMIT else "out"
def f19(s, n):
    if s and not n:
        return 1
    if not s or n > 2:
        return 2
    return 3
def f20(o):
    return o.val + 1
def f21(a, b):
    return (abs(a) + a // 3 - b % 4, -a, min(a, b), max(a, b, 1))
def f22(o):
    return o.name if o is not None else "none"
def f23(a, b):
    return tuple(a) < tuple(b)
def f24(a, b):
    return "".join(sorted([a.upper(), b]))
def f25(s):
    return s[:1].lower() + s[0].upper()
def f26(o):
    if o is not None and o.tag is not None:
        return o.tag
    return None
def f27(o, p):
    if o is None or p is None:
        return -1
    return o.val - p.val
def f28(x):
    return min(1.0, max(-1.0, x))
def f29(s):
    return {"s33": "downward", "s55": "upward"}.get(s, "?")
def f30(a):
    if a > 5:
        raise ValueError("big")
    return a
def f31(s):
    key = s[:2]
    if key == "ab":
        key = key + "!"
    return key

# ---- outside the subset: each must be refused
def g01(n):
    while n > 0:
        n -= 1
    return n
def g02(xs):
    return [x for x in xs]
def g03(s):
    return s.lower()
def g04(s, n):
    return s == n
def g05(s, n):
    return s < n
def g06(a):
    return a + undefined_name
def g07(a):
    print(a)
    return a
def g08(a):
    a += 1
    return a
def g09(a):
    try:
        return a
    except ValueError:
        return 0
def g10(a, b):
    return a is b
def g11(s):
    return {"a": 1, "a": 2}.get(s, 0)
def g12(xs):
    total = 0
    for x in xs:
        total = total + x.val
    return total
def g13(a):
    return a / 2
def g14(x):
    return x < None
def g15(s):
    return s.replace("a", "b")
def g16(a, *rest):
    return a
def g17(a):
    return (lambda q: q)(a)
def g18(s):
    return s[::2]
def g19(o):
    return o == o
def g20(a):
    if a > 0:
        b = 1
    return b
'''

ITEM = Struct("Item")
COLOR = Enum("Color")
SPECS = [
    ("f01", [INT, INT, INT], BOOL, False), ("f02", [INT, INT], INT, False), ("f03", [STR], BOOL, False), ("f04", [STR], STR, False),
    ("f05", [STR], STR, True), ("f06", [STR, INT], Tup(BOOL, BOOL, BOOL, BOOL, BOOL), False), ("f07", [Opt(INT)], Opt(INT), False),
    ("f08", [Opt(STR)], INT, False), ("f09", [INT, STR, INT, STR], Tup(BOOL, BOOL, BOOL, BOOL, BOOL, BOOL), False),
    ("f10", [Opt(INT), Opt(INT)], BOOL, True), ("f11", [COLOR], COLOR, False), ("f12", [COLOR, STR], COLOR, True),
    ("f13", [STR], Tup(INT, BOOL, BOOL, BOOL, STR), False), ("f14", [STR, INT], STR, False), ("f15", [INT, INT], Opt(INT), False),
    ("f16", [INT], Tup(STR, INT), False), ("f17", [ListT(ITEM), STR], Opt(INT), False), ("f18", [FLOAT], Opt(STR), False),
    ("f19", [STR, INT], INT, False), ("f20", [Opt(ITEM)], INT, True), ("f21", [INT, INT], Tup(INT, INT, INT, INT), False),
    ("f22", [Opt(ITEM)], STR, False), ("f23", [STR, STR], BOOL, False), ("f24", [STR, STR], STR, False), ("f25", [STR], STR, True),
    ("f26", [Opt(ITEM)], Opt(STR), False), ("f27", [Opt(ITEM), Opt(ITEM)], INT, False), ("f28", [FLOAT], FLOAT, False),
    ("f29", [STR], STR, False), ("f30", [INT], INT, True), ("f31", [STR], STR, False),
]
REFUSE = [("g01", [INT], INT), ("g02", [ListT(ITEM)], ListT(ITEM)), ("g03", [STR], STR), ("g04", [STR, INT], BOOL), ("g05", [STR, INT], BOOL),
          ("g06", [INT], INT), ("g07", [INT], INT), ("g08", [INT], INT), ("g09", [INT], INT), ("g10", [INT, INT], BOOL), ("g11", [STR], INT),
          ("g12", [ListT(ITEM)], INT), ("g13", [INT], INT), ("g14", [Opt(INT)], BOOL), ("g15", [STR], STR), ("g16", [INT], INT),
          ("g17", [INT], INT), ("g18", [STR], STR), ("g19", [ITEM], BOOL), ("g20", [INT], INT)]

INTS = [-7, -3, -1, 0, 1, 2, 3, 4, 6]
STRS = ["", "a", "AB", "abz", " x ", "bc", "é", "12", "ß", "Z", "ab", "s33", "g", "red", "ǅ", "\t", "b"]
FLOATS = [float("nan"), -2.0, -1.5, -1.0, 0.0, 0.3, 1.0, 2.0, 2.5, 2.75]


def grid(mod, ty):
    k = ty[0]
    if k == "int":
        return INTS
    if k in ("str", "str1"):
        return STRS
    if k == "float":
        return FLOATS
    if k == "bool":
        return [True, False]
    if k == "enum":
        return list(mod.Color)
    if k == "opt":
        return [None] + list(grid(mod, ty[1]))[:9]
    if k == "struct":
        return [mod.Item("a", 1, None), mod.Item("bc", -2, "t"), mod.Item("", 0, "")]
    if k == "list":
        it = grid(mod, ty[1])
        return [[], [it[0]], [it[1], it[0]], it, [it[2], it[1], it[1]]]
    raise KeyError(ty)


def hexs(s):
    return s.encode("utf-8").hex() if s else "-"


def enc(v, ty):
    k = ty[0]
    if k == "int":
        return str(v)
    if k == "bool":
        return "true" if v else "false"
    if k in ("str", "str1"):
        return hexs(v)
    if k == "float":
        if v != v:
            return "nan"
        fr = Fraction(v)
        return "%d/%d" % (fr.numerator, fr.denominator)
    if k == "enum":
        return v.name
    if k == "opt":
        return "N" if v is None else "S" + enc(v, ty[1])
    if k == "tup":
        return "(" + ",".join(enc(x, t) for x, t in zip(v, ty[1])) + ")"
    if k == "struct":
        return "%s/%d/%s" % (hexs(v.name), v.val, enc(v.tag, Opt(STR)))
    raise KeyError(ty)


def lean_lit(v, ty):
    k = ty[0]
    if k == "int":
        return P.lean_int(v)
    if k == "bool":
        return "true" if v else "false"
    if k in ("str", "str1"):
        return P.lean_str(v)
    if k == "float":
        if v != v:
            return "(none : Py.PyFloat)"
        fr = Fraction(v)
        return "(some (%d / %d : Rat) : Py.PyFloat)" % (fr.numerator, fr.denominator)
    if k == "enum":
        return "Color.%s" % v.name
    if k == "opt":
        return "(none : %s)" % P.lean_type(ty) if v is None else "(some %s)" % lean_lit(v, ty[1])
    if k == "struct":
        return "(⟨%s, %s, %s⟩ : Item)" % (P.lean_str(v.name), P.lean_int(v.val), lean_lit(v.tag, Opt(STR)))
    if k == "list":
        return "([%s] : %s)" % (", ".join(lean_lit(x, ty[1]) for x in v), P.lean_type(ty))
    raise KeyError(ty)


def lean_enc(ty, x):
    """Lean expression (String) encoding the value `x` of type `ty` as `enc` does"""
    k = ty[0]
    if k == "int":
        return "(toString %s)" % x
    if k == "bool":
        return "(if %s then \"true\" else \"false\")" % x
    if k in ("str", "str1"):
        return "(T.hexs %s)" % x
    if k == "float":
        return "(match %s with | none => \"nan\" | some q => toString q.num ++ \"/\" ++ toString q.den)" % x
    if k == "enum":
        return "(Color.name %s)" % x
    if k == "opt":
        return "(match %s with | none => \"N\" | some v => \"S\" ++ %s)" % (x, lean_enc(ty[1], "v"))
    if k == "tup":
        n = len(ty[1])
        parts = []
        for i, t in enumerate(ty[1]):
            proj = "(%s)" % x + ".2" * i + (".1" if i < n - 1 else "")
            parts.append(lean_enc(t, proj))
        return "(\"(\" ++ " + " ++ \",\" ++ ".join(parts) + " ++ \")\")"
    raise KeyError(ty)


def main():
    mod = types.ModuleType("py2lean_selftest_mod")
    sys.modules[mod.__name__] = mod     # dataclasses resolves string annotations through sys.modules
    exec(compile(SRC, "<selftest>", "exec"), mod.__dict__)
    tree = ast.parse(SRC)
    w = P.World()
    w.enums["Color"] = P.EnumInfo("Color", mod.Color)
    w.structs["Item"] = P.StructInfo("Item", mod.Item, [("name", STR), ("val", INT), ("tag", Opt(STR))])
    w.structs["Item"].verify(w)
    failures = []
    out = ["import RnaVerif.Model.Py", "set_option linter.unusedVariables false", "namespace T", "open RnaVerif",
           "def hexd (n : Nat) : Char := if n < 10 then Char.ofNat (48 + n) else Char.ofNat (87 + n)",
           "def hexs (s : String) : String := if s.isEmpty then \"-\" else String.ofList (s.toUTF8.toList.flatMap (fun b => [hexd (b.toNat / 16), hexd (b.toNat % 16)]))",
           w.enums["Color"].lean(), w.structs["Item"].lean(w)]
    expected = []
    calls = []
    for name, params, ret, raises in SPECS:
        spec = P.FnSpec(name, "m", name, params, ret, raises=raises, consts={"LIMIT": (FLOAT, lambda m: m.LIMIT)})
        try:
            r = P.translate(w, spec, mod, tree)
        except P.Refuse as e:
            failures.append("%s: unexpectedly refused: %s" % (name, e))
            continue
        out.append(r["lean"])
        f = getattr(mod, name)
        allargs = list(itertools.product(*[grid(mod, t) for t in params]))
        step = max(1, len(allargs) // 400)
        if step > 1 and step % 2 == 0:
            step += 1        # odd stride: no aliasing with the grid sizes
        for args in allargs[::step]:
            try:
                v = f(*args)
                exp = enc(v, ret)
            except Exception:  # noqa: BLE001
                exp = "raise"
            call = "%s %s" % (name, " ".join(lean_lit(a, t) for a, t in zip(args, params)))
            if raises:
                e = "(match %s with | none => \"raise\" | some r => %s)" % (call, lean_enc(ret, "r"))
            else:
                e = lean_enc(ret, "(%s)" % call)
            calls.append(e)
            expected.append((name, args, exp))
    # chunks keep single terms small
    out.append("end T")
    nchunks = 0
    for i in range(0, len(calls), 100):
        out.append("open T RnaVerif in\ndef chunk%d : List String := [\n  %s]" % (nchunks, ",\n  ".join(calls[i:i + 100])))
        nchunks += 1
    out.append("#eval (do for l in [%s].flatten do IO.println l : IO Unit)" % ", ".join("chunk%d" % i for i in range(nchunks)))
    path = os.path.join(LEAN, ".audit", "Py2LeanSelfTest.lean")
    os.makedirs(os.path.dirname(path), exist_ok=True)
    open(path, "w").write("\n".join(out) + "\n")
    p = subprocess.run(["lake", "env", "lean", path], cwd=LEAN, capture_output=True, text=True)
    lines = [l for l in p.stdout.split("\n") if l != ""]
    if p.returncode != 0 or len(lines) != len(expected):
        print(p.stdout[-3000:], p.stderr[-2000:])
        print("lean failed: rc=%d, %d lines for %d calls" % (p.returncode, len(lines), len(expected)))
        return 1
    bad = 0
    for (name, args, exp), got in zip(expected, lines):
        if got != exp:
            bad += 1
            if bad <= 20:
                failures.append("%s%r: python %s, lean %s" % (name, args, exp, got))
    for name, params, ret in REFUSE:
        accepted = []
        for raises in (False, True):
            try:
                P.translate(w, P.FnSpec(name, "m", name, params, ret, raises=raises), mod, tree)
                accepted.append(raises)
            except P.Refuse:
                pass
        if accepted:
            failures.append("%s: should be refused, was accepted (raises=%s)" % (name, accepted))
    print("py2lean self-test: %d functions, %d evaluations, %d mismatches; %d outsiders, all refused: %s" % (
        len(SPECS), len(expected), bad, len(REFUSE), not any("should be refused" in f for f in failures)))
    for f in failures:
        print("  FAIL", f)
    return 1 if failures else 0


if __name__ == "__main__":
    sys.exit(main())

#!/usr/bin/env python3
"""Seeded-change bookkeeping.

  tools/seeded.py confirm <candidate-dir> <PID>   # candidate-dir holds patch.diff, demo.py, meta.json
        confirms in a scratch worktree of /repo: demo passes on the clean tree, fails with the patch, the stable
        baseline tests still pass with the patch; on success copies it to seeded/<PID>-<n>/ and fills meta.json.
  tools/seeded.py run [<id> ...] [--tier quick]    # apply each seeded change to /repo, run its check, undo; write seeded/RESULTS.json
"""
import json
import os
import shutil
import subprocess
import sys
import tempfile

VERIF = os.path.dirname(os.path.dirname(os.path.abspath(__file__)))
SEEDED = os.environ.get("SEEDED_DIR") or os.path.join(VERIF, "seeded")
BASE = json.load(open("/root/.vp/BASELINE.json"))
STABLE = set(BASE["stable_pass"])


def sh(cmd, cwd=None, env=None, timeout=1800):
    p = subprocess.run(cmd, cwd=cwd, env=env, stdout=subprocess.PIPE, stderr=subprocess.STDOUT, timeout=timeout)
    return p.returncode, p.stdout.decode(errors="replace")


def stable_tests_pass(tree):
    env = dict(os.environ, PYTHONPATH=os.path.join(tree, "src"))
    xml = os.path.join(tree, ".junit.xml")
    rc, out = sh(["/venv/bin/python", "-m", "pytest", "-q", "-p", "no:cacheprovider", "--timeout=900",
                  "--continue-on-collection-errors", "--junitxml=" + xml], cwd=tree, env=env)
    import xml.etree.ElementTree as ET
    passed = set()
    try:
        for tc in ET.parse(xml).getroot().iter("testcase"):
            ok = not any(ch.tag in ("failure", "error", "skipped") for ch in tc)
            if ok:
                passed.add("%s::%s" % (tc.get("classname"), tc.get("name")))
    finally:
        if os.path.exists(xml):
            os.remove(xml)
    missing = sorted(STABLE - passed)
    return not missing, missing


def confirm(cand, pid):
    patch = os.path.join(cand, "patch.diff")
    demo = os.path.join(cand, "demo.py")
    tree = tempfile.mkdtemp(prefix="seedchk-", dir="/tmp")
    os.rmdir(tree)
    rc, out = sh(["git", "-C", "/repo", "worktree", "add", "-q", tree, "HEAD"])
    assert rc == 0, out
    result = {"property": pid}
    try:
        env = dict(os.environ, PYTHONPATH=os.path.join(tree, "src"), LOGLEVEL="ERROR")
        rc0, out0 = sh(["/venv/bin/python", demo], cwd=tree, env=env, timeout=900)
        result["demo_clean_exit"] = rc0
        rc, out = sh(["git", "-C", tree, "apply", patch])
        result["patch_applies"] = rc == 0
        if rc != 0:
            result["error"] = out[-500:]
            return result, False
        rc1, out1 = sh(["/venv/bin/python", demo], cwd=tree, env=env, timeout=900)
        result["demo_patched_exit"] = rc1
        result["demo_patched_tail"] = out1[-400:]
        ok, missing = stable_tests_pass(tree)
        result["stable_tests_pass_with_patch"] = ok
        result["stable_tests_missing"] = missing
        good = rc0 == 0 and rc1 != 0 and ok
        return result, good
    finally:
        sh(["git", "-C", "/repo", "worktree", "remove", "--force", tree])


def cmd_confirm(cand, pid):
    result, good = confirm(cand, pid)
    print(json.dumps(result, indent=1))
    if not good:
        print("NOT CONFIRMED")
        return 1
    os.makedirs(SEEDED, exist_ok=True)
    n = 1
    while os.path.exists(os.path.join(SEEDED, "%s-%d" % (pid, n))):
        n += 1
    dst = os.path.join(SEEDED, "%s-%d" % (pid, n))
    os.makedirs(dst)
    for f in ("patch.diff", "demo.py"):
        shutil.copy(os.path.join(cand, f), os.path.join(dst, f))
    meta = {}
    try:
        meta = json.load(open(os.path.join(cand, "meta.json")))
    except Exception:
        pass
    meta["property"] = pid
    meta["confirmed"] = {"what_was_run": "in a scratch worktree of /repo: demo.py on the clean tree (exit 0), demo.py with patch.diff applied (exit != 0), "
                                         "the 45 stable baseline tests with the patch applied (all pass)", **result}
    json.dump(meta, open(os.path.join(dst, "meta.json"), "w"), indent=1)
    print("kept as", dst)
    return 0


def cmd_run(ids, tier):
    os.makedirs(SEEDED, exist_ok=True)
    all_ids = sorted(d for d in os.listdir(SEEDED) if os.path.isdir(os.path.join(SEEDED, d)))
    ids = ids or all_ids
    res_path = os.path.join(SEEDED, "RESULTS.json")
    results = json.load(open(res_path)) if os.path.exists(res_path) else {}
    inplace = os.environ.get("SEEDED_INPLACE") == "1"
    if inplace:
        rc, st = sh(["git", "-C", "/repo", "status", "--porcelain", "--untracked-files=no"])
        assert st.strip() == "", "/repo has uncommitted changes:\n" + st
    for sid in ids:
        d = os.path.join(SEEDED, sid)
        meta = json.load(open(os.path.join(d, "meta.json")))
        props = meta.get("checks") or [meta["property"]]
        # default: a scratch worktree of /repo's HEAD with the change applied, handed to the check through
        # PYTHONPATH / RNAPOLIS_SRC (does not disturb other work running against /repo); SEEDED_INPLACE=1 applies
        # the patch to /repo itself and undoes it afterwards
        if inplace:
            tree = "/repo"
        else:
            tree = tempfile.mkdtemp(prefix="seedrun-", dir="/tmp")
            os.rmdir(tree)
            rc, out = sh(["git", "-C", "/repo", "worktree", "add", "-q", tree, "HEAD"])
            assert rc == 0, out
        rc, out = sh(["git", "-C", tree, "apply", os.path.join(d, "patch.diff")])
        if rc != 0:
            rc, out = sh(["git", "-C", tree, "apply", "-C1", os.path.join(d, "patch.diff")])
        if rc != 0:
            results[sid] = {"error": "patch does not apply: " + out[-300:]}
            print(sid, "PATCH DOES NOT APPLY")
            if not inplace:
                sh(["git", "-C", "/repo", "worktree", "remove", "--force", tree])
            continue
        try:
            entry = {}
            env = dict(os.environ)
            if not inplace:
                env["PYTHONPATH"] = os.path.join(tree, "src")
                env["RNAPOLIS_SRC"] = os.path.join(tree, "src", "rnapolis")
            for prop in props:
                p = subprocess.run([os.path.join(VERIF, "check"), prop, tier], cwd=VERIF, env=env, stdout=subprocess.PIPE,
                                   stderr=subprocess.STDOUT, timeout=3600)
                rc, out = p.returncode, p.stdout.decode(errors="replace")
                vio = [l for l in out.splitlines() if l.startswith("VIOLATION")]
                entry[prop] = {"exit": rc, "violation_lines": vio[:6], "detected": rc == 1 and bool(vio),
                               "with_failing_input": any("no-failing-input-found" not in l for l in vio), "tail": out.splitlines()[-1:] }
            results[sid] = entry
            print(sid, {p: ("DETECTED" + ("" if e["with_failing_input"] else " (obligation only)") if e["detected"] else "MISSED exit=%s" % e["exit"]) for p, e in entry.items()}, flush=True)
        finally:
            if inplace:
                sh(["git", "-C", "/repo", "checkout", "--", "."])
            else:
                sh(["git", "-C", "/repo", "worktree", "remove", "--force", tree])
    json.dump(results, open(res_path, "w"), indent=1)
    # leave generated tables in the state of the unchanged tree
    sh(["/venv/bin/python", os.path.join(VERIF, "tools", "gen_tables.py")])


if __name__ == "__main__":
    a = sys.argv[1:]
    if a and a[0] == "confirm":
        sys.exit(cmd_confirm(a[1], a[2]))
    if a and a[0] == "run":
        tier = "quick"
        ids = []
        rest = a[1:]
        while rest:
            x = rest.pop(0)
            if x == "--tier":
                tier = rest.pop(0)
            else:
                ids.append(x)
        sys.exit(cmd_run(ids, tier))
    print(__doc__)

#!/usr/bin/env python3
"""Rewrite the seeded-change table of DESIGN.md (between the markers) from seeded/*/meta.json and seeded/RESULTS.json."""
import json
import os
import re

VERIF = os.path.dirname(os.path.dirname(os.path.abspath(__file__)))
S = os.path.join(VERIF, "seeded")
res = json.load(open(os.path.join(S, "RESULTS.json")))
rows = []
for d in sorted(os.listdir(S), key=lambda x: (x.split("-")[0], int(x.split("-")[1]) if "-" in x and x.split("-")[1].isdigit() else 0)):
    p = os.path.join(S, d, "meta.json")
    if not os.path.exists(p):
        continue
    m = json.load(open(p))
    title = re.sub(r"\s+", " ", m.get("title", "")).replace("|", "\\|")
    if len(title) > 150:
        title = title[:147] + "…"
    r = res.get(d, {})
    st = []
    for prop, e in r.items():
        if not isinstance(e, dict):
            continue
        if e.get("detected"):
            st.append("caught, failing input" if e.get("with_failing_input") else "caught, `no-failing-input-found`")
        else:
            st.append("**missed**")
    if "error" in r:
        st.append("patch does not apply to the present tree")
    if m.get("main_session_note"):
        st.append("(by decision, see 14.5)")
    rows.append("| %s | %s | %s |" % (d, title, "; ".join(st) or "not run"))
table = "| id | change | quick check on the change |\n|---|---|---|\n" + "\n".join(rows)
n = len(rows)
caught = sum(1 for r in rows if "caught" in r)
inp = sum(1 for r in rows if "failing input" in r and "no-failing" not in r)
summary = "%d seeded changes; %d caught (%d with a failing input as replay, %d as `no-failing-input-found`), %d missed." % (
    n, caught, inp, caught - inp, n - caught)
path = os.path.join(VERIF, "DESIGN.md")
s = open(path).read()
a, b = "<!-- SEEDED-TABLE-BEGIN -->", "<!-- SEEDED-TABLE-END -->"
block = a + "\n" + summary + "\n\n" + table + "\n" + b
if a in s and b in s:
    s = s[:s.index(a)] + block + s[s.index(b) + len(b):]
else:
    raise SystemExit("markers not found in DESIGN.md")
open(path, "w").write(s)
print(summary)

#!/usr/bin/env python3
"""AST inventory of the places where rnapolis iterates a hash-ordered collection (C14).

A *site* is an expression of (syntactic) set type that is consumed in an order-revealing way:
`for … in S`, a comprehension over S, `list(S)`, `tuple(S)`, `"".join(S)`, `next(iter(S))`, `S.pop()`,
`enumerate(S)`, `min/max(S, key=…)`, `itertools.product(*[… S …])`-style starred use.  Membership
tests, `len`, `sorted(S)`, `min/max(S)` without key, set algebra and `in` are order-free and are not
sites.  Dicts are insertion-ordered in Python ≥ 3.7 and are not sites (their insertion order is a
function of the iteration orders inventoried here).

Prints JSON: [{"module","function","expr","kind","line"}].  Sites are identified by
(module, function, expr, kind) — not by line — so moving code does not disturb the allow-list.
"""
import ast
import json
import os
import sys

SRC = os.environ.get("RNAPOLIS_SRC", "/repo/src/rnapolis")
MODULES = ["common", "annotator", "tertiary", "parser", "parser_v2", "tertiary_v2", "adapter", "clashfinder",
           "transformer", "splitter", "unifier", "motif_extractor", "util", "aligner", "molecule_filter", "metareader"]

SET_CALLS = {"set", "frozenset"}
SET_METHODS = {"union", "intersection", "difference", "symmetric_difference", "copy"}


class FnVisitor(ast.NodeVisitor):
    def __init__(self, module, qual):
        self.module = module
        self.qual = qual
        self.setnames = set()       # names bound to set-typed values
        self.dictofsets = set()     # names bound to defaultdict(set)
        self.listofsets = set()     # names bound to lists that get sets appended
        self.localdefs = {}
        self.sites = []

    # --- typing heuristics
    def is_set(self, n):
        if isinstance(n, (ast.Set, ast.SetComp)):
            return True
        if isinstance(n, ast.Call):
            f = n.func
            if isinstance(f, ast.Name) and f.id in SET_CALLS:
                return True
            if isinstance(f, ast.Attribute) and f.attr in SET_METHODS and self.is_set(f.value):
                return True
            if isinstance(f, ast.Attribute) and f.attr == "get" and isinstance(f.value, ast.Name) and f.value.id in self.dictofsets:
                return True
            if isinstance(f, ast.Attribute) and f.attr in ("query_pairs",):  # scipy KDTree: returns a set of index pairs
                return True
        if isinstance(n, ast.Name) and n.id in self.setnames:
            return True
        if isinstance(n, ast.Subscript) and isinstance(n.value, ast.Name) and (n.value.id in self.dictofsets or n.value.id in self.listofsets):
            return True
        if isinstance(n, ast.BinOp) and isinstance(n.op, (ast.BitOr, ast.BitAnd, ast.Sub, ast.BitXor)):
            return self.is_set(n.left) or self.is_set(n.right)
        return False

    def bind(self, target, value, annotation=None):
        if not isinstance(target, ast.Name):
            return
        ann = ast.unparse(annotation) if annotation is not None else ""
        if value is not None and self.is_set(value) or ann.startswith(("Set[", "set[", "FrozenSet[", "frozenset[")):
            self.setnames.add(target.id)
        if value is not None and isinstance(value, ast.Call) and ast.unparse(value.func).endswith("defaultdict") and value.args \
                and ast.unparse(value.args[0]) in ("set", "frozenset"):
            self.dictofsets.add(target.id)
        if value is not None and isinstance(value, ast.DictComp) and self.is_set(value.value):
            self.dictofsets.add(target.id)

    def site(self, node, expr, kind):
        self.sites.append({"module": self.module, "function": self.qual, "expr": ast.unparse(expr), "kind": kind, "line": node.lineno})

    # --- statements
    def visit_Assign(self, n):
        for t in n.targets:
            self.bind(t, n.value)
        self.generic_visit(n)

    def visit_AnnAssign(self, n):
        self.bind(n.target, n.value, n.annotation)
        self.generic_visit(n)

    def visit_Expr(self, n):
        # unique.append(set())  -> list of sets
        v = n.value
        if isinstance(v, ast.Call) and isinstance(v.func, ast.Attribute) and v.func.attr == "append" and v.args and self.is_set(v.args[0]) \
                and isinstance(v.func.value, ast.Name):
            self.listofsets.add(v.func.value.id)
        self.generic_visit(n)

    def visit_For(self, n):
        if self.is_set(n.iter):
            self.site(n, n.iter, "for")
        it = n.iter
        if isinstance(it, ast.Call) and isinstance(it.func, ast.Attribute) and isinstance(it.func.value, ast.Name) \
                and it.func.value.id in self.dictofsets:
            if it.func.attr == "values" and isinstance(n.target, ast.Name):
                self.setnames.add(n.target.id)
            if it.func.attr == "items" and isinstance(n.target, ast.Tuple) and len(n.target.elts) == 2 \
                    and isinstance(n.target.elts[1], ast.Name):
                self.setnames.add(n.target.elts[1].id)
        self.generic_visit(n)

    def key_source(self, knode):
        """source text of a sort key: a lambda, or a function defined in the enclosing function"""
        if isinstance(knode, ast.Lambda):
            return ast.unparse(knode)
        if isinstance(knode, ast.Name) and knode.id in self.localdefs:
            return ast.unparse(self.localdefs[knode.id])
        return ast.unparse(knode)

    def comp(self, n):
        for g in n.generators:
            if self.is_set(g.iter):
                self.site(n, g.iter, "comprehension")
        self.generic_visit(n)

    visit_ListComp = visit_SetComp = visit_DictComp = visit_GeneratorExp = comp

    def visit_Call(self, n):
        f = n.func
        name = f.id if isinstance(f, ast.Name) else (f.attr if isinstance(f, ast.Attribute) else "")
        args = n.args
        if name in ("list", "tuple", "enumerate", "iter", "reversed") and args and self.is_set(args[0]):
            self.site(n, args[0], name)
        if name == "join" and args and self.is_set(args[0]):
            self.site(n, args[0], "join")
        if name in ("min", "max", "sorted") and args and self.is_set(args[0]) and any(k.arg == "key" for k in n.keywords):
            import hashlib
            ksrc = self.key_source(next(k.value for k in n.keywords if k.arg == "key"))
            self.site(n, args[0], name + "-with-key#" + hashlib.sha1(ksrc.encode()).hexdigest()[:10])
        if name == "pop" and isinstance(f, ast.Attribute) and self.is_set(f.value) and not args:
            self.site(n, f.value, "pop")
        for a in args:
            if isinstance(a, ast.Starred) and isinstance(a.value, ast.Name) and a.value.id in self.listofsets:
                self.site(n, a.value, "starred-list-of-sets:" + name)
        if name in ("zip", "chain", "product") and any(self.is_set(a) for a in args):
            for a in args:
                if self.is_set(a):
                    self.site(n, a, name)
        self.generic_visit(n)

    def visit_FunctionDef(self, n):
        self.localdefs[n.name] = n  # nested functions are visited separately by the driver

    visit_AsyncFunctionDef = visit_FunctionDef
    visit_Lambda = ast.NodeVisitor.generic_visit


def functions(tree):
    out = []

    def rec(node, prefix):
        for ch in ast.iter_child_nodes(node):
            if isinstance(ch, (ast.FunctionDef, ast.AsyncFunctionDef)):
                out.append((prefix + ch.name, ch))
                rec(ch, prefix + ch.name + ".")
            elif isinstance(ch, ast.ClassDef):
                rec(ch, prefix + ch.name + ".")
            else:
                rec(ch, prefix)
    rec(tree, "")
    return out


def inventory():
    sites = []
    for m in MODULES:
        p = os.path.join(SRC, m + ".py")
        if not os.path.exists(p):
            continue
        tree = ast.parse(open(p).read())
        for qual, fn in functions(tree):
            v = FnVisitor(m, qual)
            # two passes so that bindings later in the function are known when a loop precedes them
            for _ in range(2):
                v.sites = []
                for stmt in fn.body:
                    v.visit(stmt)
            sites.extend(v.sites)
        # module level
        v = FnVisitor(m, "<module>")
        for stmt in tree.body:
            if not isinstance(stmt, (ast.FunctionDef, ast.ClassDef, ast.AsyncFunctionDef)):
                v.visit(stmt)
        sites.extend(v.sites)
    return sites


def table_sites():
    """module-level containers (live objects) that hold hash-ordered collections with str-bearing elements:
    any loop over such a value follows the hash seed"""
    import importlib
    out = []

    def strbearing(x, depth=0):
        if isinstance(x, (str, bytes)):
            return True
        if isinstance(x, (tuple, frozenset)) and depth < 3:
            return any(strbearing(y, depth + 1) for y in x)
        return not isinstance(x, (int, float, bool, type(None)))

    def walk(x, path, depth):
        if isinstance(x, (set, frozenset)):
            if any(strbearing(e) for e in x):
                out.append(path)
            return
        if depth >= 3:
            return
        if isinstance(x, dict):
            for k, v in list(x.items())[:200]:
                walk(v, path + "[...]", depth + 1)
        elif isinstance(x, (list, tuple)):
            for v in list(x)[:200]:
                walk(v, path + "[...]", depth + 1)
    for m in MODULES:
        try:
            mod = importlib.import_module("rnapolis." + m)
        except Exception:
            continue
        for name, val in sorted(vars(mod).items()):
            if name.startswith("__") or getattr(val, "__module__", None) not in (None, mod.__name__) and not isinstance(val, (dict, list, tuple, set, frozenset)):
                continue
            if isinstance(val, (dict, list, tuple, set, frozenset)):
                found = []
                before = len(out)
                walk(val, name, 0)
                for pth in sorted(set(out[before:])):
                    found.append(pth)
                del out[before:]
                for pth in found:
                    out.append({"module": m, "function": "<table>", "expr": pth, "kind": "module-table-of-str-sets", "line": 0})
    # de-duplicate (a table imported into another module is reported where it is defined first)
    seen, res = set(), []
    for s in out:
        k = (s["expr"],)
        if k not in seen:
            seen.add(k)
            res.append(s)
    return res


if __name__ == "__main__":
    sites = inventory()
    if "--no-tables" not in sys.argv:
        try:
            sites += table_sites()
        except Exception as e:  # noqa: BLE001
            sites.append({"module": "?", "function": "<table>", "expr": "table scan failed: %s" % e, "kind": "error", "line": 0})
    json.dump(sites, sys.stdout, indent=1)

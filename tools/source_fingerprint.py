#!/venv/bin/python
"""Fingerprints of the source the models stand for.

  tools/source_fingerprint.py            # print JSON: {"changed": [...], "added": [...], "removed": [...]} against tools/source_pins.json
  tools/source_fingerprint.py --pin      # rewrite tools/source_pins.json from the current tree (after a verified commit of /repo)

One fingerprint per top-level function, class-level statement block and method of every module under
src/rnapolis: sha1 of `ast.dump` of the node with docstrings removed (so comments, blank lines, formatting and
docstrings do not count; any change to code, a literal or a default does).  Module-level assignments are
fingerprinted per target name.

The fingerprints are NOT a verdict and never raise an alarm.  They are used by ./check to decide how much
search effort to spend: when a function of a module a property is anchored in differs from the pinned tree,
the correspondence/search stage is repeated with further seeds within a time budget (DESIGN.md section 14).
"""
import ast
import hashlib
import json
import os
import sys

HERE = os.path.dirname(os.path.abspath(__file__))
REPO_SRC = os.environ.get("RNAPOLIS_SRC", "/repo/src/rnapolis")
PINS = os.path.join(HERE, "source_pins.json")


def _strip_doc(node):
    body = getattr(node, "body", None)
    if isinstance(body, list) and body and isinstance(body[0], ast.Expr) and isinstance(getattr(body[0], "value", None), ast.Constant) \
            and isinstance(body[0].value.value, str):
        node.body = body[1:] or [ast.Pass()]
    return node


def _h(node):
    return hashlib.sha1(ast.dump(node, include_attributes=False).encode()).hexdigest()[:16]


def fingerprints(src_dir=None):
    src_dir = src_dir or REPO_SRC
    out = {}
    for root, _, files in os.walk(src_dir):
        for f in sorted(files):
            if not f.endswith(".py"):
                continue
            path = os.path.join(root, f)
            mod = os.path.relpath(path, src_dir)[:-3].replace(os.sep, ".")
            try:
                tree = ast.parse(open(path).read())
            except SyntaxError:
                out[mod + ":<syntax-error>"] = "syntax-error"
                continue
            for node in tree.body:
                if isinstance(node, (ast.FunctionDef, ast.AsyncFunctionDef)):
                    out["%s:%s" % (mod, node.name)] = _h(_strip_doc(node))
                elif isinstance(node, ast.ClassDef):
                    rest = []
                    for ch in node.body:
                        if isinstance(ch, (ast.FunctionDef, ast.AsyncFunctionDef)):
                            key = "%s:%s.%s" % (mod, node.name, ch.name)
                            # property setters etc. share a name: append a counter
                            n, k = 1, key
                            while k in out:
                                n += 1
                                k = "%s#%d" % (key, n)
                            out[k] = _h(_strip_doc(ch))
                        else:
                            rest.append(ch)
                    hdr = ast.ClassDef(name=node.name, bases=node.bases, keywords=node.keywords, body=rest or [ast.Pass()],
                                       decorator_list=node.decorator_list)
                    try:
                        hdr.type_params = getattr(node, "type_params", [])
                    except Exception:
                        pass
                    out["%s:%s.<class-body>" % (mod, node.name)] = _h(_strip_doc(hdr))
                elif isinstance(node, (ast.Assign, ast.AnnAssign, ast.AugAssign)):
                    targets = node.targets if isinstance(node, ast.Assign) else [node.target]
                    names = [ast.unparse(t) for t in targets]
                    out["%s:%s" % (mod, ",".join(names))] = _h(node)
                elif isinstance(node, (ast.Import, ast.ImportFrom)):
                    continue
                elif isinstance(node, ast.Expr) and isinstance(node.value, ast.Constant) and isinstance(node.value.value, str):
                    continue
                else:
                    key = "%s:<stmt:%s>" % (mod, type(node).__name__)
                    n, k = 1, key
                    while k in out:
                        n += 1
                        k = "%s#%d" % (key, n)
                    out[k] = _h(node)
    return out


def diff(src_dir=None):
    cur = fingerprints(src_dir)
    try:
        pins = json.load(open(PINS))
    except Exception:
        return {"changed": [], "added": [], "removed": [], "no_pins": True}
    return {"changed": sorted(k for k in cur if k in pins and pins[k] != cur[k]),
            "added": sorted(k for k in cur if k not in pins),
            "removed": sorted(k for k in pins if k not in cur)}


if __name__ == "__main__":
    if "--pin" in sys.argv:
        json.dump(fingerprints(), open(PINS, "w"), indent=0, sort_keys=True)
        print("pinned %d items" % len(json.load(open(PINS))))
    else:
        print(json.dumps(diff()))

#!/bin/bash
# refresh a private copy of /verif (made with `cp -a /verif <dir>`, so that it has its own .lake) with the current
# sources; used to run clean-tree checks in parallel with seeded runs (which rewrite Generated/ in /verif itself)
set -e
d=${1:?target directory}
rsync -a --delete --exclude .lake --exclude .audit --exclude .build.lock --exclude replays --exclude evidence --exclude .git /verif/ "$d"/
mkdir -p "$d/evidence"
